#![no_main]
// Engine B: coverage-guided search over the same choice-sequence decoder and the same oracle as
// Engine A (bytes -> u64 choices -> case -> oracle). A violation that is not a known finding
// writes a replay file and aborts.
use libfuzzer_sys::fuzz_target;

fuzz_target!(|data: &[u8]| {
    oxv::fuzz::fuzz_one::<oxv::props::c12::C12>(data);
});
