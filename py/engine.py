#!/usr/bin/env python3
"""Engine C (Hypothesis) for C19 / C20: Python bindings versus the Rust core.

  engine.py run C19|C20 quick|thorough
  engine.py replay <file>

Runs under python3-vt (Hypothesis 6.x). The extension module is /verif/work/pymod/oxmpl_py.so
(built from /repo's working tree by ./check); the Rust reference is `oxv refserver`.
"""
import contextlib
import hashlib
import io
import json
import math
import os
import struct
import subprocess
import sys
import time

VERIF = os.environ.get("OXV_VERIF_DIR", "/verif")
sys.path.insert(0, os.path.join(VERIF, "work", "pymod"))

import oxmpl_py  # noqa: E402
from oxmpl_py import base as B  # noqa: E402
from oxmpl_py import geometric as G  # noqa: E402

from hypothesis import HealthCheck, Phase, given, seed, settings  # noqa: E402
from hypothesis import strategies as st  # noqa: E402

# The core prints progress lines with println!: keep fd 1 quiet and write our own report lines to
# a saved duplicate of the original stdout.
_REAL_OUT = os.dup(1)
_devnull = os.open(os.devnull, os.O_WRONLY)
os.dup2(_devnull, 1)


def say(text):
    os.write(_REAL_OUT, (text + "\n").encode())


OXV = os.path.join(VERIF, "work", "target", "release", "oxv")
SEED = int(os.environ.get("VERIF_SEED", "0") or 0)
PI = math.pi


def hx(x):
    return struct.pack(">d", float(x)).hex()


# ------------------------------------------------------------------------------------------
# reference server
# ------------------------------------------------------------------------------------------
class Ref:
    def __init__(self):
        self.p = subprocess.Popen([OXV, "refserver"], stdin=subprocess.PIPE, stdout=subprocess.PIPE,
                                  stderr=subprocess.DEVNULL, text=True, bufsize=1)

    def ask(self, obj):
        self.p.stdin.write(json.dumps(obj) + "\n")
        self.p.stdin.flush()
        line = self.p.stdout.readline()
        if not line:
            raise RuntimeError("refserver died")
        return json.loads(line)

    def close(self):
        try:
            self.p.stdin.write('{"op":"quit"}\n')
            self.p.stdin.flush()
            self.p.wait(timeout=5)
        except Exception:
            self.p.kill()


REF = None


def ref():
    global REF
    if REF is None:
        REF = Ref()
    return REF


# ------------------------------------------------------------------------------------------
# scenario <-> Python objects
# ------------------------------------------------------------------------------------------
def comp_width(c):
    if "RV" in c:
        return c["RV"]["dim"]
    if "SO2" in c:
        return 1
    return 4


def build_comp_space(c, frac):
    if "RV" in c:
        b = c["RV"]["bounds"]
        sp = B.RealVectorStateSpace(c["RV"]["dim"], [tuple(x) for x in b] if b is not None else None)
    elif "SO2" in c:
        b = c["SO2"]["bounds"]
        sp = B.SO2StateSpace(tuple(b) if b is not None else None)
    else:
        b = c["SO3"]["bounds"]
        sp = B.SO3StateSpace((B.SO3State(*b[0]), b[1]) if b is not None else None)
    if frac is not None:
        sp.set_longest_valid_segment_fraction(frac)
    return sp


def build_space(cfg):
    k = cfg["kind"]
    comps, fr, w = cfg["comps"], cfg["fracs"], cfg["weights"]
    if k in ("RV", "SO2", "SO3"):
        return build_comp_space(comps[0], fr[0])
    if k == "CS":
        return B.CompoundStateSpace([build_comp_space(c, f) for c, f in zip(comps, fr)], list(w))
    if k == "SE2":
        rb = comps[0]["RV"]["bounds"]
        yb = comps[1]["SO2"]["bounds"] or [-PI, PI]
        bounds = [tuple(x) for x in rb] + [tuple(yb)] if rb is not None else None
        return B.SE2StateSpace(w[1], bounds)
    if k == "SE3":
        rb = comps[0]["RV"]["bounds"]
        return B.SE3StateSpace(w[1], [tuple(x) for x in rb] if rb is not None else None)
    raise ValueError(k)


def mk_comp_state(c, v):
    if "RV" in c:
        return B.RealVectorState(list(v))
    if "SO2" in c:
        return B.SO2State(v[0])
    return B.SO3State(v[0], v[1], v[2], v[3])


def mk_state(cfg, flat):
    k = cfg["kind"]
    comps = cfg["comps"]
    if k in ("RV", "SO2", "SO3"):
        return mk_comp_state(comps[0], flat)
    if k == "CS":
        out, o = [], 0
        for c in comps:
            n = comp_width(c)
            out.append(mk_comp_state(c, flat[o:o + n]))
            o += n
        return B.CompoundState(out)
    if k == "SE2":
        return B.SE2State(flat[0], flat[1], flat[2])
    if k == "SE3":
        return B.SE3State(flat[0], flat[1], flat[2], B.SO3State(flat[3], flat[4], flat[5], flat[6]))
    raise ValueError(k)


def flat_comp(s):
    if isinstance(s, B.RealVectorState):
        return list(s.values)
    if isinstance(s, B.SO2State):
        return [s.value]
    if isinstance(s, B.SO3State):
        return [s.x, s.y, s.z, s.w]
    raise TypeError(type(s))


def flat_of(cfg, s):
    k = cfg["kind"]
    if k in ("RV", "SO2", "SO3"):
        return flat_comp(s)
    if k == "CS":
        out = []
        for c in s.components:
            out += flat_comp(c)
        return out
    if k == "SE2":
        return [s.x, s.y, s.yaw]
    if k == "SE3":
        r = s.rotation
        return [s.x, s.y, s.z, r.x, r.y, r.z, r.w]
    raise ValueError(k)


PD_CTOR = {"RV": "from_real_vector", "SO2": "from_so2", "SO3": "from_so3", "CS": "from_compound",
           "SE2": "from_se2", "SE3": "from_se3"}

ERRMAP = {
    "No solution found within timeout.": "Timeout",
    "No solution found.": "NoSolutionFound",
    "<Planner>.setup() was not called, thus Planner is uninitialised.": "PlannerUninitialised",
    "Start state is not valid in the current StateSpace.": "InvalidStartState",
    "StateSpace is not sampled. Either Tree or Roadmap is empty.": "UnsampledStateSpace",
}


class Goal:
    def __init__(self, space, cfg, targets, radius, fault=None):
        self.space, self.cfg = space, cfg
        self.targets = [mk_state(cfg, t) for t in targets]
        self.radius = radius
        self.k = 0
        self.fault = fault  # None | dict(kind=..., at=k | region=...)
        self.sat_calls = 0
        self.first_true = None  # index of the first is_satisfied call that returned True
        self.failed_states = []

    def is_satisfied(self, s):
        i = self.sat_calls
        self.sat_calls += 1
        f = self.fault
        if f is not None and f["where"] == "goal":
            hit = (f["at"] == "always" or f["at"] == i) if "at" in f else in_region(self.space, self.cfg, f["region"], s)
            if hit:
                self.failed_states.append(flat_of(self.cfg, s))
                return do_fault(f["kind"])
        ans = any(self.space.distance(s, t) <= self.radius for t in self.targets)
        if ans and self.first_true is None:
            self.first_true = i
        return ans

    def distance_goal(self, s):
        return min(max(self.space.distance(s, t) - self.radius, 0.0) for t in self.targets)

    def sample_goal(self):
        t = self.targets[self.k % len(self.targets)]
        self.k += 1
        return t


class FaultError(Exception):
    pass


def whole_goal(space, cfg, targets, radius, kind):
    """A goal whose is_satisfied attribute itself is faulty (every call fails)."""
    if kind == "wrong-arity":
        class G(Goal):
            def is_satisfied(self):  # noqa: D401 - deliberately takes no state
                return True
    elif kind == "non-callable":
        class G(Goal):
            is_satisfied = None
    else:
        class G(Goal):
            is_satisfied = staticmethod(math.isfinite)
    return G(space, cfg, targets, radius)


class FaultBase(BaseException):
    """A user exception outside the Exception hierarchy."""


RAISE_KINDS = {"raise": None, "raise-attr": AttributeError, "raise-value": ValueError, "raise-type": TypeError,
               "raise-key": KeyError, "raise-zero": ZeroDivisionError, "raise-stop": StopIteration,
               "raise-runtime": RuntimeError,
               # outside the Exception hierarchy (SystemExit excluded: printing it ends the interpreter)
               "raise-keyboardinterrupt": KeyboardInterrupt, "raise-generatorexit": GeneratorExit,
               "raise-baseexception": FaultBase}

# faults of the callback object itself: every call fails, and the error is raised by the call
# machinery, without a Python frame of the callee
WHOLE_KINDS = ("wrong-arity", "non-callable", "c-callable")


def whole_checker(kind):
    if kind == "wrong-arity":
        return lambda: True
    if kind == "non-callable":
        return None
    return math.isfinite  # a C callable: TypeError("must be real number, not ...")


def do_fault(kind):
    if kind == "raise":
        raise FaultError("injected callback failure")
    if kind in RAISE_KINDS:
        raise RAISE_KINDS[kind]("injected callback failure")
    if kind == "none":
        return None
    if kind == "str":
        return "yes"
    if kind == "int":
        return 1
    if kind == "list":
        return []
    if kind == "float":
        return 0.5
    if kind == "nonempty-list":
        return [False]
    if kind == "truthy-str":
        return "invalid"
    if kind == "false":
        return False
    raise ValueError(kind)


def in_region(space, cfg, region, s):
    """region = [centre flat, radius]: the space's own metric (bit-identical across languages)."""
    return space.distance(s, mk_state(cfg, region[0])) <= region[1]


class Checker:
    def __init__(self, space, cfg, world, fault=None):
        self.space, self.cfg, self.world = space, cfg, world
        self.balls = [(mk_state(cfg, c), r) for c, r in world["sballs"]]
        self.boxes = [o["Box"]["dims"] for o in world["obst"]]
        self.calls = 0
        self.fault = fault
        self.failed_states = []

    def pure(self, s):
        f = flat_of(self.cfg, s)
        for dims in self.boxes:
            if all(lo <= f[i] <= hi for i, lo, hi in dims):
                return False
        for c, r in self.balls:
            if self.space.distance(s, c) <= r:
                return False
        return True

    def __call__(self, s):
        i = self.calls
        self.calls += 1
        f = self.fault
        if f is not None and f["where"] == "validity":
            hit = (f["at"] == "always" or f["at"] == i) if "at" in f else in_region(self.space, self.cfg, f["region"], s)
            if hit:
                self.failed_states.append(flat_of(self.cfg, s))
                return do_fault(f["kind"])
        return self.pure(s)


def run_python(sc, fault=None, mirror_false=False):
    """Runs the scenario through oxmpl_py. Returns (tag, path as list of flats, checker, goal)."""
    cfg = sc["space"]
    space = build_space(cfg)
    if fault is not None and mirror_false:
        fault = dict(fault, kind="false")
    whole = fault is not None and fault.get("at") == "always"
    if whole and fault["where"] == "goal" and not mirror_false:
        goal = whole_goal(space, cfg, sc["targets"], sc["goal_radius"], fault["whole"])
    else:
        goal = Goal(space, cfg, sc["targets"], sc["goal_radius"], None if whole and fault["where"] != "goal" else fault)
    start = mk_state(cfg, sc["start"])
    pd = getattr(B.ProblemDefinition, PD_CTOR[cfg["kind"]])(space, start, goal)
    if sc.get("frac_after") is not None and hasattr(space, "set_longest_valid_segment_fraction"):
        # must NOT affect the planner: the problem definition snapshotted the space
        space.set_longest_valid_segment_fraction(sc["frac_after"])
    conf = B.PlannerConfig(sc["seed"])
    pl = sc["planner"]
    if pl == "RRT":
        planner = G.RRT(sc["step"], sc["goal_bias"], pd, conf)
    elif pl == "RRTConnect":
        planner = G.RRTConnect(sc["step"], sc["goal_bias"], pd, conf)
    elif pl == "RRTStar":
        planner = G.RRTStar(sc["step"], sc["goal_bias"], sc["radius"], pd, conf)
    else:
        planner = G.PRM(sc["prm_build_s"], sc["radius"], pd, conf)
    chk = Checker(space, cfg, sc["world"], None if whole and fault["where"] != "validity" else fault)
    chk_obj = chk
    if whole and fault["where"] == "validity" and not mirror_false:
        chk_obj = whole_checker(fault["whole"])
    err = io.StringIO()
    stage = "setup"
    t_start = time.time()
    with contextlib.redirect_stderr(err):
        try:
            if sc.get("presetup"):
                # the planner object is first set up with another, permissive callback: the
                # second setup must replace it
                planner.setup(lambda _s: True)
            planner.setup(chk_obj)
            if pl == "PRM":
                stage = "construct_roadmap"
                planner.construct_roadmap()
            stage = "solve"
            path = planner.solve(sc["timeout"])
            tag, states = "Ok", [flat_of(cfg, s) for s in path.states]
        except Exception as e:  # noqa: BLE001 - the bindings raise plain Exception
            msg = str(e)
            if msg in ERRMAP:
                tag, states = ERRMAP[msg], None
            elif isinstance(e, FaultError) or "injected callback failure" in msg or (
                    fault is not None and isinstance(e, (TypeError, KeyError, StopIteration, ZeroDivisionError, AttributeError))):
                # the user's exception (or the conversion error of a non-bool answer) came out of
                # the planner call instead of being treated as "invalid" / "not satisfied"
                tag, states = f"Escaped:{stage}:{type(e).__name__}", None
            else:
                tag, states = "Exception:" + msg, None
        except BaseException as e:  # noqa: BLE001 - pyo3's PanicException derives from BaseException
            if type(e).__name__ == "PanicException":
                tag, states = "Panic", None
            elif fault is not None and isinstance(e, (KeyboardInterrupt, GeneratorExit, FaultBase)):
                tag, states = f"Escaped:{stage}:{type(e).__name__}", None
            else:
                raise
    chk.elapsed = time.time() - t_start
    return tag, states, chk, goal, space


def plan_case(sc):
    """The Rust-side PlanCase mirroring the scenario."""
    us = int(round(sc["timeout"] * 1e6))
    ops = [{"Setup": 0}] * (2 if sc.get("presetup") else 1)
    if sc["planner"] == "PRM":
        ops.append({"ConstructTimed": {"us": int(sc["prm_build_s"] * 1e6)}})
    ops.append({"SolveTimed": {"us": us}})
    return {
        "space": sc["space"],
        "world": sc["world"],
        "problems": [{"start": sc["start"], "goal": {"targets": sc["targets"], "radius": sc["goal_radius"],
                                                     "rng_sampler": False}}],
        "planner": sc["planner"], "step": sc["step"], "goal_bias": sc["goal_bias"], "radius": sc["radius"],
        "seed": sc["seed"], "script": None, "ops": ops, "space_fail_at": None, "goal_fail_at": None,
        "empty_starts": False, "query_cap": 18446744073709551615,
    }


# ------------------------------------------------------------------------------------------
# Hypothesis strategies
# ------------------------------------------------------------------------------------------
def fl(lo, hi):
    return st.floats(min_value=lo, max_value=hi, allow_nan=False, allow_infinity=False, allow_subnormal=False)


@st.composite
def unit_quat(draw):
    v = [draw(fl(-1, 1)) for _ in range(4)]
    n = math.sqrt(sum(x * x for x in v))
    if n < 1e-3:
        return [0.0, 0.0, 0.0, 1.0]
    return [x / n for x in v]


@st.composite
def comp_cfg(draw, which):
    if which == "RV":
        dim = draw(st.integers(1, 3))
        b = []
        for _ in range(dim):
            lo = draw(fl(-3, -0.5))
            b.append([lo, lo + draw(fl(1.0, 5.0))])
        return {"RV": {"dim": dim, "bounds": b}}
    if which == "SO2":
        if draw(st.booleans()):
            return {"SO2": {"bounds": None}}
        lo = draw(fl(-PI, 0.0))
        return {"SO2": {"bounds": [lo, min(PI, lo + draw(fl(1.0, PI)))]}}
    if draw(st.booleans()):
        return {"SO3": {"bounds": None}}
    return {"SO3": {"bounds": [draw(unit_quat()), draw(fl(0.6, 1.5))]}}


@st.composite
def comp_state(draw, c):
    if "RV" in c:
        return [draw(fl(lo + 0.01 * (hi - lo), hi - 0.01 * (hi - lo))) for lo, hi in c["RV"]["bounds"]]
    if "SO2" in c:
        b = c["SO2"]["bounds"] or [-PI, PI]
        return [draw(fl(b[0] + 1e-3, b[1] - 1e-3))]
    b = c["SO3"]["bounds"]
    q = draw(unit_quat())
    if b is None:
        return q
    # rotate the centre by a small random rotation: stay inside the cone
    ang = draw(fl(0.0, b[1] * 0.9))
    n = math.sqrt(q[0] ** 2 + q[1] ** 2 + q[2] ** 2) or 1.0
    ax = [q[0] / n, q[1] / n, q[2] / n] if n > 1e-6 else [1.0, 0.0, 0.0]
    h = ang / 2
    d = [ax[0] * math.sin(h), ax[1] * math.sin(h), ax[2] * math.sin(h), math.cos(h)]
    c0 = b[0]
    r = [c0[3] * d[0] + c0[0] * d[3] + c0[1] * d[2] - c0[2] * d[1],
         c0[3] * d[1] - c0[0] * d[2] + c0[1] * d[3] + c0[2] * d[0],
         c0[3] * d[2] + c0[0] * d[1] - c0[1] * d[0] + c0[2] * d[3],
         c0[3] * d[3] - c0[0] * d[0] - c0[1] * d[1] - c0[2] * d[2]]
    m = math.sqrt(sum(x * x for x in r))
    return [x / m for x in r]


@st.composite
def space_cfg(draw):
    kind = draw(st.sampled_from(["RV", "SO2", "SO3", "CS", "SE2", "SE3"]))
    # resolution fraction: mostly in (0, 1]; sometimes above 1 (the core clamps it to 1) or
    # non-positive (the core ignores it)
    frac = st.one_of(st.none(), fl(0.02, 0.5), st.sampled_from([1.0, 1.5, 7.0, 0.0, -1.0]))
    if kind in ("RV", "SO2", "SO3"):
        return {"kind": kind, "comps": [draw(comp_cfg(kind))], "weights": [1.0], "fracs": [draw(frac)]}
    if kind == "CS":
        n = draw(st.integers(1, 3))
        comps = [draw(comp_cfg(draw(st.sampled_from(["RV", "SO2", "SO3"])))) for _ in range(n)]
        return {"kind": kind, "comps": comps, "weights": [draw(fl(0.2, 3.0)) for _ in range(n)],
                "fracs": [draw(frac) for _ in range(n)]}
    if kind == "SE2":
        rv = {"RV": {"dim": 2, "bounds": [[-2.0, 2.0], [-2.0, draw(fl(1.0, 3.0))]]}}
        so2 = draw(comp_cfg("SO2"))
        return {"kind": kind, "comps": [rv, so2], "weights": [1.0, draw(fl(0.2, 2.0))], "fracs": [None, None]}
    rv = {"RV": {"dim": 3, "bounds": [[-2.0, 2.0], [-2.0, 2.0], [-1.0, draw(fl(1.0, 3.0))]]}}
    return {"kind": kind, "comps": [rv, {"SO3": {"bounds": None}}], "weights": [1.0, draw(fl(0.2, 2.0))],
            "fracs": [None, None]}


@st.composite
def state_in(draw, cfg):
    out = []
    for c in cfg["comps"]:
        out += draw(comp_state(c))
    return out


def approx_extent(cfg):
    s = 0.0
    for c, w in zip(cfg["comps"], cfg["weights"]):
        if "RV" in c:
            e = math.sqrt(sum((hi - lo) ** 2 for lo, hi in c["RV"]["bounds"]))
        elif "SO2" in c:
            b = c["SO2"]["bounds"] or [-PI, PI]
            e = min(PI, b[1] - b[0])
        else:
            b = c["SO3"]["bounds"]
            e = PI if b is None else min(PI, 2 * b[1])
        s += (e * w) ** 2
    return math.sqrt(s)


@st.composite
def scenario(draw, planners=("RRT", "RRTConnect", "RRTStar"), with_obstacles=True, small_steps=False):
    cfg = draw(space_cfg())
    ext = approx_extent(cfg)
    start = draw(state_in(cfg))
    targets = [draw(state_in(cfg)) for _ in range(draw(st.integers(1, 2)))]
    offs, o = [], 0
    for c in cfg["comps"]:
        offs.append(o)
        o += comp_width(c)
    obst, sballs = [], []
    if with_obstacles:
        for _ in range(draw(st.integers(0, 2))):
            if draw(st.booleans()):
                # box on the coordinates of one RV component
                rvs = [i for i, c in enumerate(cfg["comps"]) if "RV" in c]
                if rvs:
                    i = draw(st.sampled_from(rvs))
                    dims = []
                    for k, (lo, hi) in enumerate(cfg["comps"][i]["RV"]["bounds"]):
                        a = draw(fl(lo, hi))
                        dims.append([offs[i] + k, a, min(hi, a + draw(fl(0.05, 0.4)) * (hi - lo))])
                    obst.append({"Box": {"dims": dims}})
            else:
                sballs.append([draw(state_in(cfg)), draw(fl(0.02, 0.2)) * ext])
        # a thin slab across one coordinate of an RV component, between start and target, with
        # a door in another coordinate: what gets through depends on the motion-check resolution
        rvs = [i for i, c in enumerate(cfg["comps"]) if "RV" in c]
        if rvs and draw(st.integers(0, 9)) < 3:
            i = draw(st.sampled_from(rvs))
            bs = cfg["comps"][i]["RV"]["bounds"]
            k = draw(st.integers(0, len(bs) - 1))
            lo, hi = bs[k]
            a, b = start[offs[i] + k], targets[0][offs[i] + k]
            mid = a + (b - a) * draw(fl(0.3, 0.7))
            half = draw(fl(0.004, 0.06)) * (hi - lo)
            dims = [[offs[i] + k, mid - half, mid + half]]
            if len(bs) > 1 and draw(st.booleans()):
                j = (k + 1) % len(bs)
                jl, jh = bs[j]
                cut = jl + draw(fl(0.2, 0.8)) * (jh - jl)
                dims.append([offs[i] + j, jl, cut] if draw(st.booleans()) else [offs[i] + j, cut, jh])
            obst.append({"Box": {"dims": dims}})
    pl = draw(st.sampled_from(list(planners)))
    # mostly a fraction of the extent; a fifth of the time comparable to or larger than the space
    step = draw(st.one_of(fl(0.08, 0.6), fl(0.08, 0.6), fl(0.08, 0.6), fl(0.08, 0.6), fl(0.6, 1.6))) * ext
    if small_steps == "moderate":
        # many iterations per solve, so that the result depends on the whole random stream
        step = draw(fl(0.03, 0.15)) * ext
    elif small_steps and draw(st.booleans()):
        # steps below the other numeric parameters (goal bias, radius factor): an argument slip
        # in a constructor arm then lengthens the edges instead of shortening them
        step = draw(fl(0.01, 0.3))
    sc = {
        "space": cfg, "start": start, "targets": targets, "goal_radius": draw(fl(0.05, 0.25)) * ext,
        "world": {"obst": obst, "only_inside": None, "sballs": sballs},
        "planner": pl, "step": step, "goal_bias": draw(st.sampled_from([0.0, 0.05, 0.2, 0.5, 1.0])),
        "radius": (draw(fl(0.8, 3.0)) * step) if pl != "PRM" else draw(fl(0.2, 0.6)) * ext,
        "seed": draw(st.integers(0, 2 ** 32)), "timeout": 0.4, "prm_build_s": 0.02,
        "frac_after": draw(st.one_of(st.none(), st.sampled_from([0.9, 0.011, 3.0]))),
        "presetup": draw(st.integers(0, 3)) == 0,
    }
    return sc


# ------------------------------------------------------------------------------------------
# bookkeeping
# ------------------------------------------------------------------------------------------
class Stats:
    def __init__(self, pid, tier):
        self.pid, self.tier = pid, tier
        self.evaluations = 0
        self.nontrivial = set()
        self.labels = {}
        self.discards = {}
        self.samples = []
        self.failed = False
        self.failure = None  # (signature, detail, scenario)
        self.t0 = time.time()
        self.parts = {}

    def label(self, k, n=1):
        self.labels[k] = self.labels.get(k, 0) + n

    def case(self, sc, nontrivial, part):
        if self.failed:
            return
        self.evaluations += 1
        self.parts[part] = self.parts.get(part, 0) + 1
        if nontrivial:
            self.nontrivial.add(hashlib.sha1(json.dumps(sc, sort_keys=True).encode()).hexdigest())
            if len([s for s in self.samples if s.get("nontrivial")]) < 2:
                self.samples.append({"part": part, "nontrivial": True, "case": sc})
        elif not any(not s.get("nontrivial") for s in self.samples):
            self.samples.append({"part": part, "nontrivial": False, "case": sc})

    def discard(self, why):
        if not self.failed:
            self.discards[why] = self.discards.get(why, 0) + 1

    def fail(self, sig, detail, sc, part):
        self.failed = True
        self.failure = (sig, detail, sc, part)
        raise AssertionError(sig + ": " + detail)


def stats_to_json(st):
    return {"evaluations": st.evaluations, "nontrivial": sorted(st.nontrivial), "labels": st.labels,
            "discards": st.discards, "samples": st.samples[:4], "parts": st.parts,
            "failure": list(st.failure) if st.failure else None}


def merge_stats(pid, tier, blobs):
    st = Stats(pid, tier)
    for b in blobs:
        st.evaluations += b["evaluations"]
        st.nontrivial.update(b["nontrivial"])
        for k, v in b["labels"].items():
            st.labels[k] = st.labels.get(k, 0) + v
        for k, v in b["discards"].items():
            st.discards[k] = st.discards.get(k, 0) + v
        for k, v in b["parts"].items():
            st.parts[k] = st.parts.get(k, 0) + v
        for smp in b["samples"]:
            if len(st.samples) < 4:
                st.samples.append(smp)
        if b["failure"] and st.failure is None:
            st.failure = tuple(b["failure"])
    return st


WORKERS = int(os.environ.get("OXV_PY_WORKERS", "8"))


def run_parallel(pid, tier, rule, assumptions):
    """Runs WORKERS copies of this script as workers (own Hypothesis seed, own reference server),
    merges their statistics and reports like a single run."""
    t0 = time.time()
    tmp = os.path.join(VERIF, "work", "py-workers")
    os.makedirs(tmp, exist_ok=True)
    procs = []
    for k in range(WORKERS):
        outp = os.path.join(tmp, f"{pid}-{k}.json")
        if os.path.exists(outp):
            os.remove(outp)
        procs.append((outp, subprocess.Popen([sys.executable, os.path.abspath(__file__), "worker", pid, tier, str(k), outp],
                                             stdout=subprocess.DEVNULL, stderr=subprocess.DEVNULL)))
    blobs = []
    crashed = 0
    for outp, pr in procs:
        pr.wait()
        try:
            blobs.append(json.load(open(outp)))
        except Exception:
            crashed += 1
    st = merge_stats(pid, tier, blobs)
    st.t0 = t0
    code = finish(st, rule, assumptions)
    if crashed and code == 0:
        say(f"INCONCLUSIVE property={pid}: {crashed} of {WORKERS} Python workers ended without a report")
        return 2
    return code


def known_findings():
    try:
        return json.load(open(os.path.join(VERIF, "known_findings.json")))
    except Exception:
        return []


def finish(stats, rule, assumptions):
    out_lines = []
    violations = 0
    code = 0
    if stats.failure is not None:
        sig, detail, sc, part = stats.failure
        known = [k for k in known_findings() if k["property"] == stats.pid and k["status"] == "known" and k["signature"] == sig]
        if known:
            out_lines.append(f"KNOWN-FINDING: property={stats.pid} {sig}: {known[0]['what']}")
        else:
            violations = 1
            rdir = os.path.join(VERIF, "replays")
            os.makedirs(rdir, exist_ok=True)
            h = hashlib.sha1(json.dumps(sc, sort_keys=True).encode()).hexdigest()[:16]
            path = os.path.join(rdir, f"{stats.pid}-{part}-{h}.json")
            json.dump({"engine": "py", "property": stats.pid, "part": part, "expected": "violation",
                       "signature": sig, "detail": detail, "case": sc}, open(path, "w"), indent=1)
            out_lines.append(f"VIOLATION property={stats.pid} replay={path}")
            out_lines.append(f"  signature: {sig}")
            out_lines.append(f"  detail: {detail[:1500]}")
            code = 1
    ev = {
        "property_id": stats.pid, "tier": stats.tier, "seed": SEED, "level": "exploration",
        "coverage": {
            "evaluations": stats.evaluations, "distinct_nontrivial": len(stats.nontrivial), "rule": rule,
            "samples": stats.samples[:4], "labels": stats.labels, "discards": stats.discards,
            "parts": stats.parts, "exhaustive": False,
        },
        "assumptions": assumptions, "wall_s": time.time() - stats.t0, "violations": violations,
    }
    os.makedirs(os.path.join(VERIF, "evidence"), exist_ok=True)
    evp = os.path.join(VERIF, "evidence", f"{stats.pid}.json")
    if stats.pid in PY_HALVES and os.path.exists(evp):
        # the Rust half of C07 has just written the evidence file: add this part to it
        base = json.load(open(evp))
        cov = base["coverage"]
        pname = PY_HALVES[stats.pid]
        cov["evaluations"] += stats.evaluations
        cov["distinct_nontrivial"] += len(stats.nontrivial)
        cov["rule"] += f" || [{pname}] {rule}"
        cov["samples"] += [{"part": pname, "case": x["case"]} for x in stats.samples[:2]]
        cov.setdefault("labels", {})[pname] = stats.labels
        if stats.discards:
            cov.setdefault("discards", {})[pname] = stats.discards
        cov.setdefault("parts", []).append({"part": pname, "evaluations": stats.evaluations, "corpus": 0, "enumerated": 0,
                                            "random": stats.evaluations, "distinct_nontrivial": len(stats.nontrivial),
                                            "enumeration_exhaustive_over_stated_lattice": False})
        base["wall_s"] += time.time() - stats.t0
        base["violations"] += violations
        ev = base
    json.dump(ev, open(evp, "w"), indent=1)
    out_lines.append(f"{stats.pid} {stats.tier}: evaluations={stats.evaluations} distinct_nontrivial={len(stats.nontrivial)} "
                     f"violations={violations} wall={time.time() - stats.t0:.1f}s")
    say("\n".join(out_lines))
    tot = stats.evaluations + sum(stats.discards.values())
    if code == 0 and tot > 0 and sum(stats.discards.values()) > 0.25 * tot:
        say(f"INCONCLUSIVE property={stats.pid}: {sum(stats.discards.values())} of {tot} examples discarded")
        return 2
    return code


def hyp_settings(n):
    return settings(max_examples=n, deadline=None, database=None, derandomize=False,
                    suppress_health_check=list(HealthCheck), phases=[Phase.generate, Phase.shrink],
                    report_multiple_bugs=False)


# ------------------------------------------------------------------------------------------
# C19
# ------------------------------------------------------------------------------------------
def c19_distances(sc, stats):
    """space.distance through the wrapper versus the core, bit for bit: start-target, target-start,
    a state with itself (same object) and with an equal copy."""
    part = "distance-differential"
    cfg = sc["space"]
    space = build_space(cfg)
    a, b = mk_state(cfg, sc["start"]), mk_state(cfg, sc["targets"][0])
    a2 = mk_state(cfg, sc["start"])
    fa, fb = flat_of(cfg, a), flat_of(cfg, b)
    for name, x, y, fx, fy in (("start-target", a, b, fa, fb), ("target-start", b, a, fb, fa),
                               ("same-object", a, a, fa, fa), ("equal-copy", a, a2, fa, fa),
                               ("target-same-object", b, b, fb, fb)):
        rep = ref().ask({"op": "interp", "space": cfg, "a": fx, "b": fy})
        if "error" in rep or "d" not in rep:
            stats.discard("reference could not build (distance)")
            return
        got = space.distance(x, y)
        stats.label("distance:" + name)
        if hx(got) != hx(rep["d"]):
            stats.case(sc, True, part)
            stats.fail(f"C19:distance-differs:{cfg['kind']}:{name}",
                       f"{name}: Python space.distance = {got!r}, core = {rep['d']!r} for {fx!r}, {fy!r}", sc, part)
    stats.case(sc, True, part)


def c19_check_scenario(sc, stats):
    part = "planner-differential"
    c19_distances(sc, stats)
    tag, states, chk, goal, _ = run_python(sc)
    rep = ref().ask({"op": "plan", "case": plan_case(sc)})
    if "error" in rep:
        stats.discard("reference could not build: " + rep["error"][:60])
        return
    rstep = rep["steps"][-1]
    rtag = rstep["tag"]
    stats.label("planner:" + sc["planner"])
    stats.label("kind:" + sc["space"]["kind"])
    if tag == "Timeout" or rtag == "Timeout":
        stats.discard("timeout on one side (py=%s, rust=%s)" % (tag, rtag))
        return
    stats.label("outcome:" + tag)
    fr = [f for f in sc["space"]["fracs"] if f is not None]
    if any(f > 1.0 for f in fr):
        stats.label("resolution-fraction-above-1")
    if any(f <= 0.0 for f in fr):
        stats.label("resolution-fraction-non-positive")
    if any(len(o["Box"]["dims"]) <= 2 for o in sc["world"]["obst"]):
        stats.label("world-with-slab")
    if sc.get("presetup"):
        stats.label("set-up-twice(first with a permissive callback)")
    has_obst = bool(sc["world"]["obst"] or sc["world"]["sballs"])
    nontrivial = tag == "Ok" and len(states) >= 3 and has_obst
    if sc.get("frac_after") is not None:
        stats.label("fraction-changed-after-problem-definition")
    stats.case(sc, nontrivial, part)
    if tag != rtag:
        stats.fail(f"C19:outcome-differs:{sc['planner']}", f"Python returned {tag}, the Rust core {rtag}", sc, part)
    if tag == "Ok":
        py = [[hx(x) for x in s] for s in states]
        if py != rstep["path"]:
            k = next((i for i, (a, b) in enumerate(zip(py, rstep["path"])) if a != b), min(len(py), len(rstep["path"])))
            stats.fail(f"C19:path-differs:{sc['planner']}:{sc['space']['kind']}",
                       f"paths differ (python {len(py)} states, rust {len(rstep['path'])}); first difference at index {k}", sc, part)


def c19_prm_soundness(sc, stats):
    part = "prm-soundness"
    tag, states, chk, goal, space = run_python(sc)
    stats.label("prm-outcome:" + tag)
    if tag != "Ok":
        stats.case(sc, False, part)
        return
    cfg = sc["space"]
    has_obst = bool(sc["world"]["obst"] or sc["world"]["sballs"])
    stats.case(sc, len(states) >= 3 and has_obst, part)
    if [hx(x) for x in states[0]] != [hx(x) for x in sc["start"]]:
        stats.fail("C19:prm:path-does-not-start-at-start", "first state %r" % (states[0],), sc, part)
    last = mk_state(cfg, states[-1])
    if not any(space.distance(last, mk_state(cfg, t)) <= sc["goal_radius"] for t in sc["targets"]):
        stats.fail("C19:prm:last-state-not-in-goal", "last state %r" % (states[-1],), sc, part)
    pure = Checker(space, cfg, sc["world"])
    for i, s in enumerate(states):
        if not pure.pure(mk_state(cfg, s)):
            stats.fail("C19:prm:invalid-state-on-path", f"path[{i}] = {s!r} is rejected by the Python callback", sc, part)
    # dense re-check of every segment through the reference interpolation (oracle B)
    for i in range(len(states) - 1):
        rep = ref().ask({"op": "interp", "space": cfg, "a": states[i], "b": states[i + 1]})
        if "error" in rep:
            return
        lvs, d, pts = rep["lvs"], rep["d"], rep["points"]
        run = best = 0
        for p in pts:
            if pure.pure(mk_state(cfg, p)):
                run = 0
            else:
                run += 1
                best = max(best, run)
        if best > 0 and (best - 1) * d / max(1, len(pts) - 1) >= lvs * (1 + 1e-6):
            stats.fail("C19:prm:segment-crosses-invalid-stretch", f"segment {i} crosses an invalid stretch >= L = {lvs}", sc, part)
        d_limit = sc["radius"]
        if d > d_limit * (1 + 1e-9) + 1e-9:
            stats.fail("C19:prm:edge-longer-than-radius", f"segment {i} has length {d} > radius {d_limit}", sc, part)


XV = [-math.inf, -1e308, -4.0, -PI, -1.0, -0.0, 0.0, 1e-300, 1.0, PI, 4.0, 1e308, math.inf, math.nan]


def xj(x):
    if isinstance(x, (list, tuple)):
        return [xj(v) for v in x]
    if x != x:
        return "NaN"
    if x in (math.inf, -math.inf):
        return "inf" if x > 0 else "-inf"
    return x


def c19_wrappers(stats):
    """Constructors over the C12 lattice, distances / extents / canonicalised getters."""
    part = "wrappers"

    def compare(name, req, build, probes):
        rep = ref().ask(dict(req, op="ctor"))
        try:
            sp = build()
            ok, exc = True, None
        except ValueError as e:
            ok, exc = False, e
        except Exception as e:  # noqa: BLE001
            stats.case(req, True, part)
            stats.fail(f"C19:wrapper:{name}:wrong-exception-type", f"{type(e).__name__}: {e} for {req}", req, part)
        def special(v):
            if isinstance(v, (list, tuple)):
                return any(special(x) for x in v)
            return v in ("NaN", "inf", "-inf")
        # non-trivial: the core rejects the arguments, or an argument is non-finite
        nontrivial = (not rep.get("ok", False)) or special(req.get("bounds"))
        stats.case(req, bool(nontrivial), part)
        stats.label("wrapper:" + name)
        if "panic" in rep:
            stats.discard("core constructor panicked (C12 territory)")
            return
        if ok != rep["ok"]:
            stats.fail(f"C19:wrapper:{name}:valueerror-mismatch",
                       f"Python {'accepted' if ok else 'raised ValueError'} but the core returned {'Ok' if rep['ok'] else 'Err'} for {req}", req, part)
        if ok:
            for key, fn in probes.items():
                if rep.get(key) is not None:
                    got = hx(fn(sp))
                    if got != rep[key]:
                        stats.fail(f"C19:wrapper:{name}:{key}-differs", f"python {got} vs core {rep[key]} for {req}", req, part)

    # SO2 spaces
    for lo in XV:
        for hi in XV:
            req = {"ctor": "SO2", "bounds": xj([lo, hi]), "a": 0.3, "b": -2.9}
            compare("SO2StateSpace", req, lambda lo=lo, hi=hi: B.SO2StateSpace((lo, hi)),
                    {"distance": lambda sp: sp.distance(B.SO2State(0.3), B.SO2State(-2.9)),
                     "extent": lambda sp: sp.get_maximum_extent()})
    compare("SO2StateSpace", {"ctor": "SO2", "bounds": None, "a": 3.0, "b": -3.0}, lambda: B.SO2StateSpace(),
            {"distance": lambda sp: sp.distance(B.SO2State(3.0), B.SO2State(-3.0)), "extent": lambda sp: sp.get_maximum_extent()})
    # RV spaces: dimension x length, one slot swept
    good = [-1.0, 1.0]
    for dim in range(0, 4):
        for ln in range(0, 5):
            pairs_ = [(lo, hi) for lo in XV for hi in XV] if ln == dim and ln > 0 else [(-1.0, 1.0), (-4.0, math.nan)]
            for lo, hi in pairs_:
                b = [list(good) for _ in range(ln)]
                if ln > 0:
                    b[ln - 1] = [lo, hi]
                a, bb = [0.25] * dim, [-0.5] * dim
                req = {"ctor": "RV", "dim": dim, "bounds": xj(b), "a": a, "b": bb}
                compare("RealVectorStateSpace", req, lambda dim=dim, b=b: B.RealVectorStateSpace(dim, [tuple(x) for x in b]),
                        {"distance": lambda sp, a=a, bb=bb: sp.distance(B.RealVectorState(a), B.RealVectorState(bb)),
                         "extent": lambda sp: sp.get_maximum_extent()})
        compare("RealVectorStateSpace", {"ctor": "RV", "dim": dim, "bounds": None, "a": [0.5] * dim, "b": [0.0] * dim},
                lambda dim=dim: B.RealVectorStateSpace(dim),
                {"distance": lambda sp, dim=dim: sp.distance(B.RealVectorState([0.5] * dim), B.RealVectorState([0.0] * dim)),
                 "extent": lambda sp: sp.get_maximum_extent()})
    # SO3 spaces
    for c in ([0.0, 0.0, 0.0, 1.0], [0.5, 0.5, 0.5, 0.5], [-0.5, -0.5, -0.5, -0.5]):
        for a in XV:
            req = {"ctor": "SO3", "bounds": [c, xj(a)], "a": [0.0, 1.0, 0.0, 0.0], "b": [0.6, 0.0, 0.8, 0.0]}
            compare("SO3StateSpace", req, lambda c=c, a=a: B.SO3StateSpace((B.SO3State(*c), a)),
                    {"distance": lambda sp: sp.distance(B.SO3State(0.0, 1.0, 0.0, 0.0), B.SO3State(0.6, 0.0, 0.8, 0.0)),
                     "extent": lambda sp: sp.get_maximum_extent()})
    # SE2 / SE3
    for slot in range(3):
        for lo in XV:
            for hi in XV:
                b = [list(good) for _ in range(3)]
                b[slot] = [lo, hi]
                req = {"ctor": "SE2", "weight": 0.5, "bounds": xj(b), "a": [0.1, 0.2, 3.0], "b": [-0.3, 0.4, -3.0]}
                compare("SE2StateSpace", req, lambda b=b: B.SE2StateSpace(0.5, [tuple(x) for x in b]),
                        {"distance": lambda sp: sp.distance(B.SE2State(0.1, 0.2, 3.0), B.SE2State(-0.3, 0.4, -3.0))})
                req = {"ctor": "SE3", "weight": 0.5, "bounds": xj(b), "a": [0.1, 0.2, 0.3, 0.0, 1.0, 0.0, 0.0],
                       "b": [-0.3, 0.4, 0.0, 0.6, 0.0, 0.8, 0.0]}
                compare("SE3StateSpace", req, lambda b=b: B.SE3StateSpace(0.5, [tuple(x) for x in b]),
                        {"distance": lambda sp: sp.distance(B.SE3State(0.1, 0.2, 0.3, B.SO3State(0.0, 1.0, 0.0, 0.0)),
                                                            B.SE3State(-0.3, 0.4, 0.0, B.SO3State(0.6, 0.0, 0.8, 0.0)))})
    for ln in (0, 1, 2, 4):
        b = [list(good) for _ in range(ln)]
        compare("SE2StateSpace", {"ctor": "SE2", "weight": 1.0, "bounds": b, "a": [0, 0, 0], "b": [0, 0, 0]},
                lambda b=b: B.SE2StateSpace(1.0, [tuple(x) for x in b]), {})
        compare("SE3StateSpace", {"ctor": "SE3", "weight": 1.0, "bounds": b, "a": [0] * 7, "b": [0] * 7},
                lambda b=b: B.SE3StateSpace(1.0, [tuple(x) for x in b]), {})
    # canonicalised state getters
    angles = [0.0, -0.0, PI, -PI, 7.0, -7.0, 1e6, -1e15, 1e300, 1e-300, 3 * PI, 2 * PI, -5 * PI / 2]
    for v in angles:
        rep = ref().ask({"op": "state", "state": "SO2", "v": v})
        got = hx(B.SO2State(v).value)
        stats.case({"state": "SO2", "v": v}, not (-PI <= v < PI), part)
        stats.label("wrapper:SO2State")
        if got != rep["value"]:
            stats.fail("C19:wrapper:SO2State:value-differs", f"SO2State({v}).value = {got}, core {rep['value']}", {"state": "SO2", "v": v}, part)
        rep = ref().ask({"op": "state", "state": "SE2", "x": 1.5, "y": -2.5, "yaw": v})
        s = B.SE2State(1.5, -2.5, v)
        stats.case({"state": "SE2", "yaw": v}, not (-PI <= v < PI), part)
        stats.label("wrapper:SE2State")
        if (hx(s.x), hx(s.y), hx(s.yaw)) != (rep["x"], rep["y"], rep["yaw"]):
            stats.fail("C19:wrapper:SE2State:getters-differ", f"SE2State(1.5,-2.5,{v})", {"state": "SE2", "yaw": v}, part)
        if hx(s.rotation.value) != rep["yaw"] or [hx(t) for t in s.translation.values] != [rep["x"], rep["y"]]:
            stats.fail("C19:wrapper:SE2State:components-differ", f"SE2State(1.5,-2.5,{v})", {"state": "SE2", "yaw": v}, part)
    # compound components survive the round trip bit for bit
    cs = B.CompoundState([B.RealVectorState([1.25, -0.0]), B.SO2State(7.0), B.SO3State(0.5, -0.5, 0.5, 0.5)])
    comps = cs.components
    want = [[1.25, -0.0], [B.SO2State(7.0).value], [0.5, -0.5, 0.5, 0.5]]
    got = [flat_comp(c) for c in comps]
    stats.case({"state": "CS"}, True, part)
    if [[hx(x) for x in g_] for g_ in got] != [[hx(x) for x in w_] for w_ in want]:
        stats.fail("C19:wrapper:CompoundState:components-differ", f"{got} vs {want}", {"state": "CS"}, part)


C19_RULE = ("Hypothesis-generated scenarios (six problem-definition variants; generated bounds, weights, resolution fractions, "
            "start, 1-2 goal targets, 0-2 obstacles: boxes on R^n coordinates and balls measured with the wrapped space.distance; "
            "planner in {RRT, RRTConnect, RRTStar} with parameters and seed; optionally a resolution change on the Python space after "
            "the ProblemDefinition was created) run through oxmpl_py and, as the same PlanCase, through the Rust core (oxv refserver); "
            "outcome class and every float of the path compared as 64-bit patterns. PRM: soundness of the Python path against the Python "
            "callbacks (start, goal, validity, dense re-check through the core's interpolation, radius). Wrappers: ValueError <=> core Err over "
            "the C12 bound lattice, distance / maximum-extent / canonicalised getters bit for bit; for every scenario space.distance of "
            "start-target, target-start, a state with itself (same object) and with an equal copy against the core, bit for bit. "
            "8 worker processes with derived seeds. "
            "Non-trivial = both sides return a path of >= 3 states in a world with an obstacle (differential); a path of >= 3 states with "
            "obstacles (PRM); a rejected or non-finite argument (wrappers).")
C19_ASSUME = ["callbacks use only comparisons on state getters and the wrapped space.distance, so they are bit-identical functions in both languages",
              "examples where either side hits its 0.4 s time limit are discarded and counted",
              "Python goals' sample_goal() returns the targets in rotation and receives no generator; the Rust mirror does the same"]


def worker_c19(tier, k):
    stats = Stats("C19", tier)
    n = (1600 if tier == "quick" else 16000) // WORKERS
    try:
        if k == 0:
            c19_wrappers(stats)

        @seed(SEED * 1000 + k)
        @hyp_settings(n)
        @given(scenario())
        def t_diff(sc):
            c19_check_scenario(sc, stats)

        @seed(SEED * 1000 + 500 + k)
        @hyp_settings(max(10, n // 5))
        @given(scenario(planners=("PRM",)))
        def t_prm(sc):
            c19_prm_soundness(sc, stats)

        t_diff()
        t_prm()
    except AssertionError:
        if stats.failure is None:
            raise
    return stats


def run_c19(tier):
    return run_parallel("C19", tier, C19_RULE, C19_ASSUME)


# ------------------------------------------------------------------------------------------
# C20
# ------------------------------------------------------------------------------------------
@st.composite
def fault_plan(draw, sc):
    where = draw(st.sampled_from(["validity", "validity", "goal"]))
    kinds = ["raise", "none", "str", "int", "list", "raise-attr", "raise-value", "raise-type", "raise-key",
             "raise-zero", "raise-stop", "raise-runtime", "float", "nonempty-list", "truthy-str"]
    kinds += ["raise-keyboardinterrupt", "raise-generatorexit", "raise-baseexception"]
    kind = draw(st.sampled_from(kinds))
    if draw(st.integers(0, 9)) == 0:
        # the callback object itself is faulty: every call fails
        return {"where": where, "kind": "false", "at": "always", "whole": draw(st.sampled_from(WHOLE_KINDS))}
    if draw(st.booleans()):
        plan = {"where": where, "kind": kind, "at": draw(st.integers(0, 39))}
        if where == "goal" and draw(st.booleans()):
            # aim the one failing call at the call that decides the run: the first one whose
            # state really satisfies the goal (found by a fault-free run of the same scenario)
            plan["at_goal_hit"] = True
        return plan
    # region: a ball (space metric) around a random state, or around a state the planner is
    # certain to ask about more than once (a goal target: goal samples, goal-tree roots; the
    # start), from a pin-point (1e-3 of the extent) to a third of the space
    cfg = sc["space"]
    # a goal fault matters only where the goal test can succeed: mostly on a target
    which = draw(st.sampled_from(["any", "target", "target", "target", "target"] if where == "goal"
                                 else ["any", "any", "target", "target", "start"]))
    if which == "target":
        c = draw(st.sampled_from(sc["targets"]))
    elif which == "start":
        c = sc["start"]
    else:
        c = draw(state_in(cfg))
    r = draw(st.one_of(fl(0.05, 0.35), st.sampled_from([1e-3, 1e-2, 0.03]))) * approx_extent(cfg)
    if where == "goal" and which == "target" and draw(st.integers(0, 3)) > 0:
        # comparable to the goal region itself: covers part or all of it
        r = sc["goal_radius"] * draw(fl(0.5, 2.5))
    return {"where": where, "kind": kind, "region": [list(c), r], "centre": which}


@st.composite
def c20_case(draw):
    sc = draw(scenario(planners=("RRT", "RRTConnect", "RRTStar", "PRM")))
    sc["fault"] = draw(fault_plan(sc))
    sc["timeout"] = 0.4
    return sc


def c20_check(sc, stats):
    part = "fault-injection"
    fault = sc["fault"]
    cfg = sc["space"]
    if fault.get("at_goal_hit"):
        _, _, _, g0, _ = run_python(sc)
        if g0.first_true is not None:
            fault = dict(fault, at=g0.first_true)
            fault.pop("at_goal_hit")
            sc["fault"] = fault
            stats.label("fault-at-the-first-satisfying-goal-call")
    tagA, pA, chkA, goalA, spaceA = run_python(sc, fault=fault)
    reached = len(chkA.failed_states) + len(goalA.failed_states)
    if fault.get("at") == "always":
        reached = 1  # the faulty callback object is called at least for the start / first goal test
    fkind = fault.get("whole", fault["kind"])
    stats.label("planner:" + sc["planner"])
    stats.label("fault:" + fault["where"] + ":" + fault.get("whole", fault["kind"]) + (":every-call" if fault.get("at") == "always" else ":kth-call" if "at" in fault else ":region"))
    if "region" in fault:
        stats.label("fault-region-centre:" + fault.get("centre", "any"))
    if reached:
        stats.label("fault-reached")
    if tagA.startswith("Escaped:"):
        stats.case(sc, True, part)
        stats.fail(f"C20:callback-failure-escaped:{sc['planner']}:{tagA.split(':')[1]}:{fault['where']}",
                   f"the failing callback's exception came out of the planner call ({tagA}) instead of the state being treated as "
                   f"invalid / not satisfying the goal", sc, part)
        return
    # no path through a state on which the callback failed / inside the fault region
    # (region plans only: with a k-th-call plan the same state may legitimately be accepted by
    # another, non-failing call; there the A-versus-B comparison below is the whole oracle)
    if tagA == "Ok" and fault["where"] == "validity" and "region" in fault:
        for i, s in enumerate(pA):
            stt = mk_state(cfg, s)
            bad = any([hx(x) for x in s] == [hx(x) for x in f] for f in chkA.failed_states)
            if in_region(spaceA, cfg, fault["region"], stt):
                bad = True
            if bad:
                stats.case(sc, True, part)
                stats.fail(f"C20:path-through-failed-state:{sc['planner']}:{fkind}",
                           f"path[{i}] = {s!r} is a state on which the validity callback failed ({fkind})", sc, part)
    if tagA == "Ok" and fault["where"] == "goal" and "region" in fault and sc["planner"] != "RRTConnect":
        # is_satisfied fails on every state of the region, so none of them "satisfies the goal":
        # a path of RRT / RRT* / PRM cannot end there, whether or not the planner asked
        if in_region(spaceA, cfg, fault["region"], mk_state(cfg, pA[-1])):
            stats.case(sc, True, part)
            stats.fail(f"C20:path-ends-where-goal-callback-fails:{sc['planner']}:{fkind}",
                       f"the path ends at {pA[-1]!r}, inside the region where is_satisfied fails ({fkind})", sc, part)
    if tagA == "Ok" and fault["where"] == "goal" and "region" in fault:
        last = pA[-1]
        if any([hx(x) for x in last] == [hx(x) for x in f] for f in goalA.failed_states) and sc["planner"] != "RRTConnect":
            stats.case(sc, True, part)
            stats.fail(f"C20:goal-accepted-on-failed-callback:{sc['planner']}:{fkind}",
                       f"the path ends at {last!r}, a state on which is_satisfied failed ({fkind})", sc, part)
    if sc["planner"] == "PRM":
        # wall-clock sized roadmap: runs are not comparable; soundness only
        stats.case(sc, bool(reached), part)
        return
    tagB, pB, chkB, goalB, _ = run_python(sc, fault=fault, mirror_false=True)
    if tagA == "Timeout" or tagB == "Timeout":
        # a time limit hit is normally inconclusive - unless the other run, which by the property
        # does the same work, finished in an eighth of the limit: then the two runs did not do
        # the same work
        other = chkB.elapsed if tagA == "Timeout" else chkA.elapsed
        if tagA != tagB and other < sc["timeout"] / 8:
            stats.case(sc, True, part)
            stats.fail(f"C20:outcome-differs-from-false:{sc['planner']}:{fault['where']}:{fkind}",
                       f"with the failing callback: {tagA}; with the callback returning False at the same points: {tagB} "
                       f"(the run that finished took {other * 1e3:.1f} ms of the {sc['timeout'] * 1e3:.0f} ms limit)", sc, part)
        stats.discard("timeout")
        return
    tag0, p0, _, _, _ = run_python(sc)
    mattered = (tagB, pB) != (tag0, p0)
    if mattered and reached:
        stats.label("fault-mattered")
    stats.case(sc, bool(reached and mattered), part)
    if tagA != tagB:
        stats.fail(f"C20:outcome-differs-from-false:{sc['planner']}:{fault['where']}:{fkind}",
                   f"with the failing callback: {tagA}; with the callback returning False at the same points: {tagB}", sc, part)
    if tagA == "Ok":
        a = [[hx(x) for x in s] for s in pA]
        b = [[hx(x) for x in s] for s in pB]
        if a != b:
            stats.fail(f"C20:path-differs-from-false:{sc['planner']}:{fault['where']}:{fkind}",
                       f"paths differ ({len(a)} vs {len(b)} states)", sc, part)


C20_RULE = ("Hypothesis-generated C19 scenarios (all four planners, six variants) plus a fault plan: the validity callback or the goal's "
            "is_satisfied fails (raises one of eight Exception types or KeyboardInterrupt / GeneratorExit / a BaseException subclass; returns None / 'yes' / 'invalid' / 1 / 0.5 / [] / [False]) on every state "
            "inside a fault region (ball in the space's metric) or at its k-th call, k < 40 (for goal faults half of the time the call at which a fault-free run first sees the goal satisfied); in a tenth of the plans the callback object itself is faulty (takes no argument, is not callable, is a C function that rejects states), so that every call fails in the call machinery. Run A uses the failing callbacks, run B callbacks "
            "that return False at exactly those points, same seed: outcome and path must be identical bit for bit, and (region faults) no state "
            "of A's path may be one on which the callback failed. PRM (wall-clock roadmap) is checked for the second clause only. 8 worker "
            "processes with derived seeds. Non-trivial = the fault was reached and run B differs from the fault-free run.")
C20_ASSUME = ["JavaScript/WASM half of the anchor is not executable in this sandbox (no wasm target, no wasm-bindgen); Python only",
              "int 1 counts as a non-bool because pyo3's bool extraction rejects it",
              "examples that time out on either run are discarded and counted"]


def worker_c20(tier, k):
    stats = Stats("C20", tier)
    n = (2400 if tier == "quick" else 16000) // WORKERS
    try:
        @seed(SEED * 1000 + k)
        @hyp_settings(n)
        @given(c20_case())
        def t(sc):
            c20_check(sc, stats)

        t()
    except AssertionError:
        if stats.failure is None:
            raise
    return stats


def run_c20(tier):
    return run_parallel("C20", tier, C20_RULE, C20_ASSUME)


# ------------------------------------------------------------------------------------------
# C07 (Python half): two planner objects built from the same scenario return identical results
# ------------------------------------------------------------------------------------------
def c07_check(sc, stats):
    part = PY_HALVES["C07"]
    tag1, p1, _, _, _ = run_python(sc)
    tag2, p2, _, _, _ = run_python(sc)
    stats.label("planner:" + sc["planner"])
    stats.label("kind:" + sc["space"]["kind"])
    if sc["seed"] == 0:
        stats.label("seed-0")
    stats.label(f"arm:{sc['planner']}:{sc['space']['kind']}:{tag1 if tag1 == tag2 else tag1 + '/' + tag2}")
    if tag1 == "Timeout" or tag2 == "Timeout":
        stats.discard("timeout")
        return
    stats.label("outcome:" + tag1)
    stats.case(sc, tag1 == "Ok" and len(p1) >= 3, part)
    if tag1 != tag2:
        stats.fail(f"C07:py-result-differs:{sc['planner']}:{sc['space']['kind']}",
                   f"two Python planners with seed {sc['seed']} on the same problem: {tag1} versus {tag2}", sc, part)
    if tag1 == "Ok" and [[hx(x) for x in s] for s in p1] != [[hx(x) for x in s] for s in p2]:
        stats.fail(f"C07:py-result-differs:{sc['planner']}:{sc['space']['kind']}",
                   f"two Python planners with seed {sc['seed']} on the same problem returned different paths "
                   f"({len(p1)} and {len(p2)} states)", sc, part)


# properties whose Rust check is followed by a Python half: part name under which it is merged
# into the evidence file the Rust half has just written
PY_HALVES = {"C07": "python-two-instances", "C05": "python-edge-lengths", "C17": "python-rrt-vs-rrtstar"}


def c05_check(sc, stats):
    """C05 through the bindings: consecutive path states no farther apart than the configured
    step (RRT, RRT-Connect) / max(step, radius) (RRT*), for every planner x variant arm."""
    part = PY_HALVES["C05"]
    cfg = sc["space"]
    tag, path, _, _, space = run_python(sc)
    stats.label("planner:" + sc["planner"])
    stats.label("kind:" + sc["space"]["kind"])
    if tag != "Ok":
        stats.label("outcome:" + tag)
        if tag == "Timeout":
            stats.discard("timeout")
        else:
            stats.case(sc, False, part)
        return
    limit = sc["step"] if sc["planner"] != "RRTStar" else max(sc["step"], sc["radius"])
    # tolerance of the metric (DESIGN.md section 4): SO(3) distances are good to about 1e-8 rad
    tol = 1e-9 * (1 + limit) + sum(5e-6 * max(w, 1.0) for c, w in zip(cfg["comps"], cfg["weights"]) if "SO3" in c)
    worst = 0.0
    for i in range(len(path) - 1):
        d = space.distance(mk_state(cfg, path[i]), mk_state(cfg, path[i + 1]))
        worst = max(worst, d)
        if not d <= limit + tol:
            stats.case(sc, True, part)
            stats.fail(f"C05:py-edge-too-long:{sc['planner']}:{cfg['kind']}",
                       f"segment {i} of the Python path has length {d!r}, the extension limit is {limit!r}", sc, part)
    stats.case(sc, len(path) >= 3 and worst >= 0.99 * sc["step"], part)


C05_RULE = ("Hypothesis-generated C19 scenarios (six from_* variants x RRT / RRT-Connect / RRT*) planned through oxmpl_py: every "
            "segment of a returned path measured with the wrapped space.distance must respect the step (RRT*: max(step, radius)) "
            "handed to the Python constructor. Non-trivial = a path of >= 3 states with a full-length edge.")


def c17_check(sc, stats):
    """C17's last sentence through the bindings: same seed and problem, RRT versus RRT*: same
    outcome, same end state, RRT* not longer."""
    part = PY_HALVES["C17"]
    a = dict(sc, planner="RRT")
    b = dict(sc, planner="RRTStar")
    tagA, pA, _, _, space = run_python(a)
    tagB, pB, _, _, _ = run_python(b)
    stats.label("kind:" + sc["space"]["kind"])
    if "Timeout" in (tagA, tagB):
        stats.discard("timeout")
        return
    stats.label("outcome:" + tagA)
    cfg = sc["space"]
    if tagA != tagB:
        stats.case(sc, True, part)
        stats.fail(f"C17:py-rrt-vs-rrtstar:outcome:{cfg['kind']}", f"same seed and problem: RRT {tagA}, RRT* {tagB}", sc, part)
    if tagA != "Ok":
        stats.case(sc, False, part)
        return

    def length(p):
        return sum(space.distance(mk_state(cfg, p[i]), mk_state(cfg, p[i + 1])) for i in range(len(p) - 1))
    stats.case(sc, len(pA) >= 3, part)
    if [hx(x) for x in pA[-1]] != [hx(x) for x in pB[-1]]:
        stats.fail(f"C17:py-rrt-vs-rrtstar:end-state:{cfg['kind']}",
                   f"same seed and problem: RRT ends at {pA[-1]!r}, RRT* at {pB[-1]!r}", sc, part)
    la, lb = length(pA), length(pB)
    if lb > la * (1 + 1e-9) + 1e-9:
        stats.fail(f"C17:py-rrt-vs-rrtstar:longer:{cfg['kind']}", f"RRT* path length {lb!r} exceeds RRT's {la!r}", sc, part)


C17_RULE = ("Hypothesis-generated C19 scenarios (six from_* variants) planned through oxmpl_py twice with the same seed, step, goal "
            "bias and problem: RRT and RRT* (radius 0.8-3 x step) must agree on the outcome and on the end state of the path, and "
            "the RRT* path must not be longer. Non-trivial = both return a path of >= 3 states.")


def _worker(pid, check, n_quick, n_thorough, strat):
    def w(tier, k):
        stats = Stats(pid, tier)
        n = (n_quick if tier == "quick" else n_thorough) // WORKERS
        try:
            @seed(SEED * 1000 + k)
            @hyp_settings(n)
            @given(strat())
            def t(sc):
                check(sc, stats)

            t()
        except AssertionError:
            if stats.failure is None:
                raise
        return stats
    return w


worker_c05 = _worker("C05", c05_check, 1200, 8000, lambda: scenario(small_steps=True))
worker_c17 = _worker("C17", c17_check, 600, 4000, lambda: scenario(planners=("RRT",)))


def run_c05(tier):
    return run_parallel("C05", tier, C05_RULE, [])


def run_c17(tier):
    return run_parallel("C17", tier, C17_RULE, [])


C07_RULE = ("Hypothesis-generated C19 scenarios (six from_* variants x RRT / RRT-Connect / RRT*, seeds incl. 0) run twice through "
            "oxmpl_py with fresh objects (steps of 3-15 % of the extent, so that a path depends on many draws): outcome and path must be "
            "identical bit for bit. Non-trivial = Ok(path) with >= 3 states.")


def worker_c07(tier, k):
    stats = Stats("C07", tier)
    n = (1200 if tier == "quick" else 8000) // WORKERS
    try:
        @seed(SEED * 1000 + k)
        @hyp_settings(n)
        @given(scenario(small_steps="moderate"))
        def t(sc):
            c07_check(sc, stats)

        t()
    except AssertionError:
        if stats.failure is None:
            raise
    return stats


def run_c07(tier):
    return run_parallel("C07", tier, C07_RULE, [])


# ------------------------------------------------------------------------------------------
def replay(path):
    doc = json.load(open(path))
    pid, part, sc = doc["property"], doc["part"], doc["case"]
    stats = Stats(pid, "quick")
    try:
        if pid == "C19" and part == "planner-differential":
            c19_check_scenario(sc, stats)
        elif pid == "C19" and part == "distance-differential":
            c19_distances(sc, stats)
        elif pid == "C19" and part == "prm-soundness":
            c19_prm_soundness(sc, stats)
        elif pid == "C19":
            c19_wrappers(stats)
        elif pid == "C20":
            c20_check(sc, stats)
        elif pid == "C07":
            c07_check(sc, stats)
        elif pid == "C05":
            c05_check(sc, stats)
        elif pid == "C17":
            c17_check(sc, stats)
    except AssertionError:
        pass
    if stats.failure:
        sig, detail, _, _ = stats.failure
        say(f"VIOLATION property={pid} replay={path}\n  signature: {sig}\n  detail: {detail[:1500]}")
        return 1
    say("replay: no violation")
    return 0


def main():
    if len(sys.argv) >= 3 and sys.argv[1] == "replay":
        code = replay(sys.argv[2])
    elif len(sys.argv) >= 6 and sys.argv[1] == "worker":
        pid, tier, k, outp = sys.argv[2], sys.argv[3], int(sys.argv[4]), sys.argv[5]
        st = {"C19": worker_c19, "C20": worker_c20, "C07": worker_c07, "C05": worker_c05, "C17": worker_c17}[pid](tier, k)
        json.dump(stats_to_json(st), open(outp, "w"))
        code = 0
    elif len(sys.argv) >= 3 and sys.argv[1] == "run":
        tier = sys.argv[3] if len(sys.argv) > 3 else "quick"
        code = {"C19": run_c19, "C20": run_c20, "C07": run_c07, "C05": run_c05, "C17": run_c17}[sys.argv[2]](tier)
    else:
        say("usage: engine.py run C19|C20 quick|thorough | replay <file>")
        code = 2
    if REF is not None:
        REF.close()
    sys.exit(code)


if __name__ == "__main__":
    main()
