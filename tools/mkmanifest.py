#!/usr/bin/env python3
"""Regenerates /verif/MANIFEST.json from the table below (single source of truth)."""
import json, os, subprocess

HERE = os.path.dirname(os.path.dirname(os.path.abspath(__file__)))

# id -> (technique, level text, level note, design ref, engine)
CLAIMED = {
    "C09": ("exhaustive lattice of special states + proptest-generated triples vs. independent reference metric",
            "Generated-input search: every ordered triple over a lattice of failure-prone states (exhaustive in the thorough tier) plus 2e5 (quick) / 5e6 (thorough) random triples across all six kinds, layouts and weights, against the metric axioms, representation invariance, the diameter bound and an independently written reference distance. Exploration, not proof: it shows the axioms hold on everything generated.",
            "Trusted: the reference formulas in harness/src/flat.rs (scaled two-pass norm, atan2-based angular distances), libm, and the stated tolerances (DESIGN.md section 4). RV magnitudes above 1e150 are outside the stated domain.",
            "5/C09", "oxv"),
}
PENDING = {}
ALL = ["C%02d" % i for i in range(1, 21)]

def main():
    hooks_commits = []
    try:
        out = subprocess.run(["git", "-C", "/repo", "log", "--format=%H %s"], capture_output=True, text=True).stdout
        for line in out.splitlines():
            h, _, s = line.partition(" ")
            if s.startswith("verif hooks"):
                hooks_commits.append(h)
    except Exception:
        pass
    checks = []
    for pid in ALL:
        if pid not in CLAIMED:
            continue
        tech, text, note, ref, engine = CLAIMED[pid]
        checks.append({
            "property_id": pid,
            "quick_cmd": f"./check {pid} quick",
            "thorough_cmd": f"./check {pid} thorough",
            "evidence_file": f"/verif/evidence/{pid}.json",
            "replay_cmd_template": "./check --replay {path}",
            "engine": engine,
            "level_claimed": {"category": "exploration", "text": text, "design_ref": f"DESIGN.md section {ref}"},
            "level_note": note,
            "technique": tech,
        })
    na = []
    for pid in ALL:
        if pid not in CLAIMED:
            na.append({"property_id": pid, "reason": PENDING.get(pid, "check not built yet in this round (work in progress; see DESIGN.md section 5 for the planned oracle)")})
    m = {
        "version": 1,
        "setup_cmd": "./check --setup",
        "hooks": {
            "guard": "verif",
            "enable": "cargo feature `verif` of crate oxmpl, switched on by the harness's path dependency (harness/Cargo.toml: oxmpl = { path = \"/repo/oxmpl\", features = [\"verif\"] })",
            "baseline_off_cmd": "cd /repo && CARGO_NET_OFFLINE=true cargo test --workspace --no-fail-fast --offline",
            "source_commits": hooks_commits,
            "add_only": True,
        },
        "engines": [
            {"name": "oxv", "path": "/verif/harness", "serves_properties": [c["property_id"] for c in checks if c["engine"] == "oxv"],
             "kind_free_text": "Rust binary: proptest 1.11 TestRunner driven from a binary over choice sequences (16 workers), exhaustive lattices, bounded-exhaustive scripted exploration, shrinking to replay files, known-findings handling"},
        ],
        "checks": checks,
        "not_applicable": na,
        "notes": "All checks rebuild the harness against /repo's working tree (path dependency) before running. Exit 0 = held on everything explored; exit 1 + VIOLATION line = violation with replay file; exit 2 = infrastructure problem / inconclusive (never a violation).",
    }
    with open(os.path.join(HERE, "MANIFEST.json"), "w") as f:
        json.dump(m, f, indent=1)
        f.write("\n")

if __name__ == "__main__":
    main()
