#!/usr/bin/env python3
"""Regenerates /verif/MANIFEST.json from the table below (single source of truth)."""
import json, os, subprocess

HERE = os.path.dirname(os.path.dirname(os.path.abspath(__file__)))

# id -> (technique, level text, level note, design ref, engine)
CLAIMED = {
    "C01": ("proptest-generated planner cases (worlds, marginal starts, blocked goals) vs. pure-world validity oracle",
            "Generated-input search over 4 planners x 6 space kinds x generated obstacle worlds (30% starts marginally inside an obstacle, 30% goal regions blocked/overlapped), parameters and seeds: every state of every returned path is re-evaluated by the harness's pure world function, and an invalid start must be reported as InvalidStartState. Shows the property on everything generated; cannot show absence.",
            "Trusted: the harness world functions and flat state encoding; the iteration-budget hook (feature verif) only bounds the loop count.",
            "5/C01", "oxv"),
    "C02": ("model-based call histories (proptest) vs. reference model of the current problem; RRT-Connect path assembly re-derived from tree snapshots",
            "Generated call histories (setup / problem replacement / roadmap construction / repeated solve, two problems) run against the real planner and a reference model of 'current problem'; every Ok(path) must start bit-exactly at the current start and end in the current goal; RRT-Connect paths are re-derived as walks in the two snapshot trees and classified (direct / start-grew / goal-grew).",
            "Trusted: reference model in harness/src/props/plan.rs (ApiModel), snapshot accessors (read-only hooks).",
            "5/C02", "oxv"),
    "C03": ("proptest-generated worlds with walls thinner than the step; validity-query log coverage (oracle A) and dense re-check (oracle B) per path segment",
            "For every segment of every returned path: (A) the logged, accepted validity queries lying on the segment leave no gap longer than the space's longest-valid-segment length; (B) an independent dense interpolation (L/64) through the pure world finds no invalid stretch >= L. Edge kinds (extension, RRT* rewired / chosen parent, RRT-Connect sides and junction, PRM start connection / milestone link) are classified and counted; a second part grows RRT* trees over 3-6 solve calls with large neighbourhoods so that rewired and chosen-parent edges are on 80% of the returned paths. 30% of the cases plan on the library's own space object rather than the recording wrapper, so that overrides of trait methods the wrapper cannot forward are executed.",
            "Trusted: the logging checker wrapper, the on-segment metric test with the tolerances of DESIGN.md section 4. Resolution fractions > 0 only.",
            "5/C03", "oxv"),
    "C04": ("proptest-generated bounded spaces (boxes, SO2 intervals of any span, SO3 cones, compounds) vs. independent reference membership",
            "Every state of every returned path is tested against a reference bounds membership that does not use satisfies_bounds; the statement's precondition (start and goal samples in bounds) is checked per case. A third of the cases are call histories, most of them with a second problem over its own, tighter space object installed by setup(); samples and path states are judged against the space of the problem in effect. One known finding (non-convex bounded regions) is excluded by component-wise signature; convex regions must pass.",
            "Trusted: reference membership in harness/src/flat.rs, tolerance 1e-9 (SO3 1e-6).",
            "5/C04", "oxv"),
    "C05": ("proptest-generated planner cases over steps/radii from 1e-3 to 10 x extent vs. own and reference metric",
            "Consecutive path states are measured with the space's own distance and with the independent reference distance; both must respect the planner's extension limit (step / max(step, radius) / connection radius, the largest value in effect since the last setup when the caller re-tunes the planner); a Python half plans Hypothesis scenarios through oxmpl_py (every planner x variant arm of the constructors) and measures the segments with the wrapped space.",
            "Trusted: reference metric, tolerances of DESIGN.md section 4.",
            "5/C05", "oxv"),
    "C09": ("exhaustive lattice of special states + proptest-generated triples vs. independent reference metric",
            "Generated-input search: every ordered triple over a lattice of failure-prone states (exhaustive in the thorough tier) plus 3e6 (quick) / 1.2e7 (thorough) random triples across all six kinds, layouts and weights, against the metric axioms, representation invariance, the diameter bound and an independently written reference distance. Exploration, not proof: it shows the axioms hold on everything generated.",
            "Trusted: the reference formulas in harness/src/flat.rs (scaled two-pass norm, atan2-based angular distances), libm, and the stated tolerances (DESIGN.md section 4). RV magnitudes above 1e150 are outside the stated domain.",
            "5/C09", "oxv"),
    "C10": ("exhaustive lattice of pairs x t + proptest-generated pairs vs. constant-speed law, reversal, canonical form and a reference interpolation",
            "All ordered pairs over the special-value lattices x 7 values of t, plus 3e6 / 1.6e7 random (pair, t) cases incl. a dense sweep of the quaternion dot through the 0.9995 LERP/SLERP switch: endpoint laws, d(a,m) = t d and d(m,b) = (1-t) d by the reference metric and the space's own, canonical output, reversal symmetry, differential against an atan2-based reference interpolation, independence from the initial contents of the output state.",
            "Trusted: reference metric/interpolation (harness/src/gen.rs, flat.rs); ambiguous (antipodal) pairs accept either shortest path.",
            "5/C10", "oxv"),
    "C11": ("proptest-generated bound settings x wild states x sampler seeds vs. reference membership, canonical-form and idempotence oracles",
            "Constructible bound settings of all six kinds (half-bounded / one-ulp / huge boxes, SO2 intervals inside/touching/outside [-pi,pi], cones of radius 0..pi and beyond, negated centres) x states inside / on the boundary +-ulp / far outside / non-canonical / non-unit / zero x seeds: sample => satisfies + reference membership (or the documented unbounded error), enforce => satisfies, canonical, idempotent, identity on satisfying canonical states; every call under catch_unwind.",
            "Trusted: reference membership; 4-ulp comparison (RV: max(4 ulp, the documented EPSILON tolerance); angles compared as configurations). No known finding is excluded any more (F9 was repaired).",
            "5/C11", "oxv"),
    "C12": ("exhaustive lattice of constructor arguments (bound pairs over 18 special values incl. NaN/inf, lengths, radii, angles, quaternion magnitudes) + random fill-in vs. reference well-formedness predicate in both directions",
            "Every constructor of the five validated spaces and the three canonicalising state constructors over an exhaustive lattice of special arguments (about 1e4 tuples) plus 1e5 / 2e6 random ones: ill-formed => the documented error with the right payload; well-formed and in range => accepted and stored verbatim; every accepted space is then sampled, enforced, checked and asked for its resolution under catch_unwind.",
            "Trusted: the reference predicate in harness/src/props/c12.rs. Two known findings (width overflow of finite RV bounds; NaN SO3 centre) excluded by exact signature.",
            "5/C12", "oxv"),
    "C13": ("proptest-generated compound layouts/weights/bounds; differential against component-by-component recomputation with the real component spaces",
            "Every StateSpace operation of CompoundStateSpace / SE2StateSpace / SE3StateSpace is recomputed per component with separately built real component spaces and combined by the documented law: distance and resolution to 1e-14 relative, interpolate / enforce_bounds / sample_uniform bit for bit (identically seeded generator, same order), satisfies_bounds as conjunction; SE2State::new against its components.",
            "Trusted: the component spaces themselves (decided by C09-C12) and the harness's flat slicing of compound states.",
            "5/C13", "oxv"),
}

CLAIMED.update({
    "C06": ("proptest-generated timed runs (real wall clock, no budget) on feasible and by-construction infeasible worlds; in-process watchdog for non-termination",
            "Timed solve / construct_roadmap calls with limits 0-50 ms over 4 planners x 6 kinds x feasible worlds and three infeasible families (goal sealed by a shell of thickness >= 1.1 L, goal region invalid, start sealed), a fourth family (feasible query, then setup() with a checker that seals the goal), degenerate resolutions, minute steps (1e-7 of the start-goal distance, or 0) and boxes with an unbounded coordinate: elapsed <= T + 1 s (confirmed by 3 repetitions before it counts); at most one iteration draws its sample later than T after the first one (iterations started after the deadline, read from the instants of the sampler calls - independent of iteration cost); never Ok on a world that is infeasible at the documented resolution; every call returns within a 20 s watchdog.",
            "The elapsed-time clause has a generous allowance (late-by-less-than-1 s is invisible to it); the late-iteration clause is exact but sees only loops that draw samples. 'Never blocks' is 'returned within the watchdog on every generated case'. Infeasibility is judged with a reference value of the resolution (fraction x documented extent), not with what the space reports.",
            "5/C06", "oxv"),
    "C07": ("differential: two planner instances driven through the same generated call history in one process (Rust core; Python bindings via Hypothesis); metamorphic: a call cut by a real timeout after k iterations equals the call cut by budget k; prefix relation across budgets",
            "Two instances built from the same case (seed, problem, history with repeated solve / re-setup / PRM construct / problem replacement, RNG-consuming goals) must agree after every step on results (bit for bit) and on tree / roadmap snapshots; the node sequence after budget N, budget N+k and a real 0.2-3 ms timeout must be prefix-related; a call cut by a real timeout after k started iterations and the same call cut by an iteration budget of k must leave bit-identical trees / roadmaps and return identical results, also on the following call; two fresh oxmpl_py planners per Hypothesis scenario must return identical results (every planner x problem-variant arm of the bindings).",
            "Trusted: snapshot accessors and iteration budget (feature verif). Hash-order dependence is covered because both instances live in one process with distinct RandomStates.",
            "5/C07", "oxv"),
    "C08": ("model-based testing: exhaustive call sequences up to length 4/6 per planner + fault enumeration (sampler failing at its k-th call, out-of-range parameters, empty start list) + random histories, against a reference model of the API state; all calls under catch_unwind",
            "Every call sequence up to length 4 (quick) / 6 (thorough) over {setup(P1), setup(P2), construct_roadmap, set_problem_definition(P2), solve} per planner, sampler faults at every k < 12 (once, or persisting from the k-th call on), goal-bias / step / radius out of range, empty start lists, zero-sample roadmaps, plus 4000 random histories with faults: no call may unwind or fail to return (30 s watchdog), every result must be in the reference model's allowed set, every Ok must answer the current problem; a second part runs the well-formed generators and requires zero panics.",
            "Trusted: reference model (ApiModel) in harness/src/props/plan.rs and c08.rs. Three known findings (goal_bias outside [0,1] panics in random_bool) excluded by exact planner/op/message/file signature.",
            "5/C08", "oxv"),
    "C14": ("statistical PBT: KS / chi-square goodness of fit of 2e5-1e6 draws per generated bound setting against the exact marginal laws, alpha = 1e-9 with confirmation on a second seed",
            "Per generated setting (96 quick / 360 thorough; boxes of 1-20 dimensions, SO2 intervals incl. requests outside [-pi, pi], boxes sharing a bound across coordinates, cones from 0.06 rad, compounds, SE2/SE3): Kolmogorov-Smirnov of every coordinate, angle, rotation angle (theta - sin theta law conditioned on the cone), axis z-component and azimuth against the exact CDF, sign symmetry of the quaternion, 8x8 chi-square for independence of every pair of marginals.",
            "Statistical: cannot see biases below about 1%; asymptotic tail formulas; cones of radius < 0.06 rad not sampled (rejection sampling cost).",
            "5/C14", "oxv"),
    "C15": ("bounded-exhaustive explicit-state exploration of the real planners under a scripted sampler (all sample sequences to depth 5/6 over a 6-7 state alphabet, de-duplicated by tree snapshot) + stepwise random runs + chunked/timed runs; tree invariant after every iteration",
            "Every reachable tree (up to the stated depth over the stated alphabet and worlds; about 1.5e6 sequences in the quick tier) and every intermediate tree of 5000 (quick) random stepwise runs of 30-150 iterations is checked: indices, single root, acyclic, root identity, node validity, every new or changed edge motion-checked (oracles A and B) and within the extension limit, RRT* cost >= branch length, returned path = parent walk; plus re-setup histories on one planner object (second problem with a rejected start or a stricter checker), judged against the problem and world in effect. A hang of path extraction is reported as a violation by the watchdog.",
            "Exhaustive only over the stated alphabet / depth / worlds. Trusted: snapshot accessors, scripted sampler wrapper.",
            "5/C15", "oxv"),
    "C16": ("same exploration; per-iteration transition oracle from a reference model of one RRT / RRT-Connect / RRT* iteration; goal-bias frequency by Hoeffding bound on long seeded runs",
            "For every explored transition: the new state equals the sample (within the step) or interpolate(nearest, sample, step/dist) bit for bit for some nearest node (ties allowed), it is added iff the iteration's first motion check passed (queries grouped per motion check by the scope hook) and that check ran along the segment from a nearest node to the new state, nothing else changes; an extension that is valid but was never attempted is a violation; one call of k iterations and k calls of one iteration (same seed) must leave bit-identical trees (call-boundary invariance); RRT-Connect grows the smaller tree first and then extends the other toward the new node (a missing connect attempt is a violation). Goal bias 0 / 1 exactly, p in (0,1) within the Hoeffding bound at 1e-9.",
            "Trusted: reference model in harness/src/props/trees.rs; the planner's own metric (decided by C09) is used to determine 'nearest'.",
            "5/C16", "oxv"),
    "C17": ("same exploration restricted to RRT* + stepwise random runs: bit-exact cost bookkeeping, arg-min parent modulo rejected motions, rewiring exactly when strictly cheaper; differential RRT vs RRT* on the same seed",
            "Per accepted RRT* iteration: cost(new) = cost(parent) + edge bit-exactly; no candidate cheaper than the chosen parent unless a motion query on that segment was rejected; neighbours strictly cheaper through the new node (and not blocked) are re-parented with the exact cost, everything else bit-identical, recorded costs never increase. 10 000 (quick) RRT-vs-RRT* pairs: same outcome, same end state, RRT* not longer (also through the Python bindings, 600 scenarios); links made by choose-parent and rewiring must not cross an invalid stretch of the resolution's length.",
            "Trusted: reference model in harness/src/props/trees.rs. Where a rejected query from an overlapping collinear segment lies on the rewiring segment either outcome is accepted (stated in DESIGN.md).",
            "5/C17", "oxv"),
    "C18": ("bounded-exhaustive scripted sample sequences (length <= 4/5 over the alphabet, all worlds, three radii) + random roadmaps: construction replayed against the ordered validity log, reference multi-source BFS for every query",
            "Milestones = valid samples in order bit for bit; adjacency symmetric / no self-links / no duplicates; the construction is replayed against the ordered validity log so that a pair is linked iff it is within the radius and its motion check passed (exact in both directions), each link re-checked by oracles A and B; repeated construct and set_problem_definition leave the roadmap bit-identical; every query answer is compared with a reference BFS (Ok iff connected, path is a roadmap walk with the fewest milestones).",
            "Trusted: roadmap snapshot accessor, sample budget hook, scripted / recording sampler.",
            "5/C18", "oxv"),
    "C19": ("Hypothesis-generated scenarios run through oxmpl_py and through the Rust core (persistent reference server), compared bit for bit; wrapper constructors over the C12 lattice",
            "1600 (quick) / 16000 (thorough) generated scenarios (8 worker processes) over the six from_* variants x {RRT, RRTConnect, RRTStar}, with resolution fractions inside and outside (0,1] and thin slabs whose crossing depends on the resolution: outcome class and every float of the path as 64-bit patterns against the Rust core run on the same PlanCase; PRM paths checked for soundness against the Python callbacks (dense re-check through the core's interpolation); about 2000 wrapper constructor / getter / distance comparisons over the special-value lattice (ValueError <=> core Err); for every scenario space.distance of start-target, target-start, a state with itself and with an equal copy against the core, bit for bit.",
            "Callbacks restricted to comparisons and the wrapped space.distance so that both languages compute bit-identical functions; examples that time out on either side are discarded and counted (run is inconclusive above 25%).",
            "5/C19", "py"),
    "C20": ("Hypothesis-generated fault plans (raise Exception and BaseException subclasses / None / non-bool, by region or at the k-th call; callback objects that are not callable, take no argument or are C functions) on validity and goal callbacks; metamorphic comparison with callbacks returning False at the same points",
            "Run A (failing callbacks) versus run B (callbacks returning False exactly where A's failed), same seed: identical outcome and bit-identical path for RRT / RRT-Connect / RRT*; a callback failure that comes out of setup / construct_roadmap / solve as an exception is a violation; for region faults (centred on a goal target, the start or a random state; radius from 1e-3 of the extent) no state of the returned path lies in the fault region (all four planners).",
            "Python bindings only: the JavaScript half of the anchor cannot be built or run in this sandbox.",
            "5/C20", "py"),
})

PENDING = {}
ALL = ["C%02d" % i for i in range(1, 21)]

def main():
    hooks_commits = []
    try:
        out = subprocess.run(["git", "-C", "/repo", "log", "--format=%H %s"], capture_output=True, text=True).stdout
        for line in out.splitlines():
            h, _, s = line.partition(" ")
            if s.startswith("verif hooks"):
                hooks_commits.append(h)
    except Exception:
        pass
    checks = []
    for pid in ALL:
        if pid not in CLAIMED:
            continue
        tech, text, note, ref, engine = CLAIMED[pid]
        checks.append({
            "property_id": pid,
            "quick_cmd": f"./check {pid} quick",
            "thorough_cmd": f"./check {pid} thorough",
            "evidence_file": f"/verif/evidence/{pid}.json",
            "replay_cmd_template": "./check --replay {path}",
            "engine": engine,
            "level_claimed": {"category": "exploration", "text": text, "design_ref": f"DESIGN.md section {ref}"},
            "level_note": note,
            "technique": tech,
        })
    na = []
    for pid in ALL:
        if pid not in CLAIMED:
            na.append({"property_id": pid, "reason": PENDING.get(pid, "check not built yet in this round (work in progress; see DESIGN.md section 5 for the planned oracle)")})
    for c in checks:
        if c["property_id"] in ("C08", "C09", "C10", "C11", "C12", "C13"):
            c["technique"] += "; thorough tier adds a coverage-guided libFuzzer campaign over the same decoder and oracle"
    m = {
        "version": 1,
        "setup_cmd": "./check --setup",
        "hooks": {
            "guard": "verif",
            "enable": "cargo feature `verif` of crate oxmpl, switched on by the harness's path dependency (harness/Cargo.toml: oxmpl = { path = \"/repo/oxmpl\", features = [\"verif\"] })",
            "baseline_off_cmd": "cd /repo && CARGO_NET_OFFLINE=true cargo test --workspace --no-fail-fast --offline",
            "source_commits": hooks_commits,
            "add_only": True,
        },
        "engines": [
            {"name": "oxv", "path": "/verif/harness", "serves_properties": [c["property_id"] for c in checks if c["engine"] == "oxv"],
             "kind_free_text": "Rust binary: proptest 1.11 TestRunner driven from a binary over choice sequences (16 workers), exhaustive lattices, bounded-exhaustive scripted exploration, shrinking to replay files, known-findings handling"},
            {"name": "fuzz", "path": "/verif/fuzz", "serves_properties": ["C08", "C09", "C10", "C11", "C12", "C13"],
             "kind_free_text": "cargo-fuzz / libFuzzer targets (thorough tier): bytes are decoded as little-endian u64 choices and fed to the same generator and the same oracle as the proptest part; 8 jobs x 1.5e6 runs, ASan"},
            {"name": "py", "path": "/verif/py", "serves_properties": [c["property_id"] for c in checks if c["engine"] == "py"],
             "kind_free_text": "Hypothesis 6 (python3-vt) driving oxmpl_py built from /repo's working tree, with `oxv refserver` as the Rust-core reference"},
        ],
        "checks": checks,
        "not_applicable": na,
        "notes": "All checks rebuild the harness against /repo's working tree (path dependency) before running. Exit 0 = held on everything explored; exit 1 + VIOLATION line = violation with replay file; exit 2 = infrastructure problem / inconclusive (never a violation).",
    }
    with open(os.path.join(HERE, "MANIFEST.json"), "w") as f:
        json.dump(m, f, indent=1)
        f.write("\n")

if __name__ == "__main__":
    main()
