#!/usr/bin/env bash
# usage: tools/confirm_mutant.sh <ID> <A|B>
# Independently confirms a seeded change delivered under /tmp/mut/<ID>-out in a scratch worktree:
#  (1) patch applies, (2) existing tests pass with it, (3) demo fails with it, (4) demo passes without it.
# Writes /tmp/mut/<ID>-out/<A|B>.confirm.txt
set -u
id="$1"; v="$2"
base=${MUT_BASE:-/tmp/mut}; out=$base/$id-out; wt=/tmp/confirm/$id-$v
patch=$out/$v.patch.diff
demo=$(ls $out/$v.demo.* 2>/dev/null | head -1)
log=$out/$v.confirm.txt
: > $log
[ -f "$patch" ] && [ -n "$demo" ] || { echo "missing deliverables" >> $log; exit 1; }
rm -rf $wt; git -C /repo worktree prune; git -C /repo worktree add --detach $wt HEAD >/dev/null 2>&1 || { echo "worktree failed" >> $log; exit 1; }
export CARGO_TARGET_DIR=/tmp/confirm/target-$id-$v CARGO_NET_OFFLINE=true
cd $wt
ext="${demo##*.}"
run_demo() {
  if [ "$ext" = "rs" ]; then
    cp "$demo" oxmpl/tests/zz_demo_$v.rs
    feat=""; grep -q "verif" "$demo" && feat="--features verif"; cargo test -p oxmpl --offline $feat --test zz_demo_$v > /tmp/confirm/$id-$v.demo.log 2>&1; rc=$?
    rm -f oxmpl/tests/zz_demo_$v.rs
    return $rc
  else
    cargo build -p oxmpl-py --offline --release > /tmp/confirm/$id-$v.pybuild.log 2>&1 || return 99
    mkdir -p /tmp/confirm/$id-$v-pymod && cp -f $CARGO_TARGET_DIR/release/liboxmpl_py.so /tmp/confirm/$id-$v-pymod/oxmpl_py.so
    PYTHONPATH=/tmp/confirm/$id-$v-pymod python3-vt "$demo" > /tmp/confirm/$id-$v.demo.log 2>&1
    return $?
  fi
}
run_demo; echo "demo_without_mutant rc=$?" >> $log
git apply "$patch" 2>>$log || { echo "patch_applies=no" >> $log; cd /; git -C /repo worktree remove --force $wt; exit 1; }
echo "patch_applies=yes" >> $log
git diff --stat | tail -1 >> $log
cargo test -p oxmpl --offline > /tmp/confirm/$id-$v.suite.log 2>&1
echo "suite_with_mutant rc=$? $(grep -E '^test result' /tmp/confirm/$id-$v.suite.log | awk '{p+=$4; f+=$6} END {print "passed",p,"failed",f}')" >> $log
run_demo; echo "demo_with_mutant rc=$?" >> $log
cd /; git -C /repo worktree remove --force $wt
cat $log
rm -rf /tmp/confirm/target-$id-$v
