#!/usr/bin/env bash
# Sensitivity self-test: applies every hand-made probe (sensitivity/*.diff) to /repo in turn, runs the
# checks it is aimed at (sensitivity/plan.txt) and requires at least one of them to report a
# violation. Takes about 40 minutes. /repo must be clean; it is restored after every probe.
set -u
cd /verif
fail=0
while read m ids; do
  [ -z "$m" ] && continue
  out=$(tools/run_mutant.sh /verif/sensitivity/$m.diff $ids)
  if echo "$out" | grep -q "rc=1 "; then echo "caught   $m ($(echo "$out" | grep 'rc=1 ' | cut -d' ' -f1 | tr '\n' ' '))"; else echo "MISSED   $m"; echo "$out"; fail=1; fi
done < sensitivity/plan.txt
exit $fail
