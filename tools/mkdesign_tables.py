#!/usr/bin/env python3
"""Rewrites the sensitivity tables of DESIGN.md section 10 (between the TABLES markers) from
sensitivity/results.txt and seeded/*/meta.json."""
import re, json, glob
rows=[]; cur=None
for line in open('/verif/sensitivity/results.txt'):
    line=line.rstrip('\n')
    m=re.match(r"== (M\w+)", line)
    if m: cur=m.group(1); rows.append([cur,[]]); continue
    m=re.match(r"(C\d\d) rc=(\d+) (\d+) violation-lines; ?(.*)", line)
    if m and cur:
        rows[-1][1].append((m.group(1), int(m.group(2)), m.group(4).replace('signature: ','').strip()))
out=["<!-- TABLES:BEGIN -->","### (a) Hand-made probes (26)\n","| probe | checks run: outcome (first signature) |","|---|---|"]
for name, rs in rows:
    cells=[]
    for pid, rc, sig in rs:
        if rc==1: cells.append(f"**{pid}: caught** ({sig or 'non-termination: watchdog / memory guard'})")
        elif rc==0: cells.append(f"{pid}: silent")
        else: cells.append(f"{pid}: inconclusive (exit {rc})")
    out.append(f"| `{name}` | " + "; ".join(cells) + " |")
out.append("")
out.append("### (b) Changes written by sub-agents (200: round 1 = -A/-B, round 2 = -C/-D, round 3 = -E/-F, round 4 = -G/-H, round 5 = -I/-J; ten per property)\n")
out.append("| id | change (site) | needs to manifest | caught by quick checks | run but silent |")
out.append("|---|---|---|---|---|")
for d in sorted(glob.glob('/verif/seeded/C*-*')):
    m=json.load(open(d+'/meta.json'))
    inc=' (inconclusive: '+', '.join(m['inconclusive'])+')' if m['inconclusive'] else ''
    first=''
    if m.get('own_check_missed_it_at_first'):
        fr=m['first_run_before_strengthening'].get(m['breaks_property'],{}).get('rc')
        first=f" (own check at first: {'silent' if fr==0 else 'inconclusive' if fr==2 else 'strengthened before the first run'})"
    out.append(f"| {m['id']} | {m['change']} | {m['needs_to_manifest']} | {', '.join(m['caught_by_quick_checks']) or '-'}{inc}{first} | {', '.join(m['silent']) or '-'} |")
out.append("<!-- TABLES:END -->")
p='/verif/DESIGN.md'; s=open(p).read()
if "<!-- TABLES:BEGIN -->" in s:
    i=s.index("<!-- TABLES:BEGIN -->"); j=s.index("<!-- TABLES:END -->")+len("<!-- TABLES:END -->")
    s=s[:i]+"\n".join(out)+s[j:]
else:
    i=s.index("### (a) Hand-made probes (26)")
    j=s.index("Every probe is caught by at least one of the checks it was aimed at.")
    k=s.index("### (b) Changes written by sub-agents")
    l=s.index("All 40 are caught, each by the check of the property it was written against.")
    hand_text=s[j:k]
    a="\n".join(out[:out.index("### (b) Changes written by sub-agents (40, two per property)\n")])
    b="\n".join(out[out.index("### (b) Changes written by sub-agents (40, two per property)\n"):])
    # place explanatory paragraph after both tables
    s=s[:i]+"\n".join(out)+"\n\n"+hand_text+s[l:]
open(p,'w').write(s)
print("tables rewritten")
