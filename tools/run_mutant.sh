#!/usr/bin/env bash
# usage: tools/run_mutant.sh <patch.diff> <ID> [<ID>...]
# Applies a seeded change to /repo, runs the quick checks of the given properties, reverts.
set -u
patch="$1"; shift
cd /verif
if ! git -C /repo diff --quiet; then echo "/repo working tree is dirty; refusing" >&2; exit 3; fi
git -C /repo apply "$patch" || { echo "patch does not apply" >&2; exit 3; }
trap 'git -C /repo checkout -- . ; git -C /repo clean -fdq oxmpl oxmpl-py 2>/dev/null' EXIT
for id in "$@"; do
  out=$(VERIF_SEED=${VERIF_SEED:-0} ./check "$id" ${TIER:-quick} 2>/dev/null); rc=$?
  sig=$(echo "$out" | grep -m1 'signature:' | sed 's/^ *//')
  echo "$id rc=$rc $(echo "$out" | grep -c '^VIOLATION') violation-lines; $sig"
done
