#!/usr/bin/env bash
# usage: tools/mkcorpus.sh <fix-commit> <ID> [<ID>...]
# Re-creates the defect a fix commit repaired (git revert -n, never committed), runs the given
# checks in exploration mode, and stores one shrunk/first reproduction per violation signature as
# a regression input under corpus/<ID>/ (replayed first by every later run). Restores /repo.
set -u
c="$1"; shift
cd /verif
git -C /repo diff --quiet || { echo "/repo dirty" >&2; exit 3; }
git -C /repo revert -n "$c" >/dev/null 2>&1 || { git -C /repo revert --abort 2>/dev/null; git -C /repo reset -q --hard; echo "cannot revert $c cleanly" >&2; exit 3; }
trap 'git -C /repo reset -q --hard' EXIT
for id in "$@"; do
  rm -rf replays
  OXV_EXPLORE=1 ./check "$id" quick > work/corpus-$id.log 2>&1
  mkdir -p corpus/$id
  n=0
  for f in replays/$id-*.json; do
    [ -f "$f" ] || continue
    sig=$(python3 -c "import json,sys,re; d=json.load(open(sys.argv[1])); print(re.sub(r'[^A-Za-z0-9]+','-',d['signature'])[:80])" "$f")
    python3 - "$f" "corpus/$id/fixed-$c-$sig.json" "$c" <<'PY'
import json, sys
d = json.load(open(sys.argv[1]))
d["expected"] = "pass (reproduces a defect repaired by /repo commit %s; must stay silent)" % sys.argv[3]
json.dump(d, open(sys.argv[2], "w"), indent=1)
PY
    n=$((n+1))
  done
  echo "$id: $n regression inputs from reverting $c"
done
rm -rf replays
