#!/usr/bin/env bash
# Sensitivity regression over the sub-agent changes: applies every seeded/<ID>-<X>/patch.diff to
# /repo in turn, runs the quick check of the property it was written against and requires a
# violation (exit 1). /repo must be clean; it is restored after every patch. About 90 minutes.
# usage: tools/selftest_seeded.sh [pattern]      e.g. tools/selftest_seeded.sh 'C0[1-5]-*'
set -u
cd /verif
pat="${1:-C*-*}"
fail=0
for d in seeded/$pat; do
  [ -f "$d/patch.diff" ] || continue
  id=$(basename "$d"); pid=${id%%-*}
  out=$(tools/run_mutant.sh "/verif/$d/patch.diff" "$pid" 2>&1 | grep -v WARNING)
  if echo "$out" | grep -q "^$pid rc=1 "; then echo "caught   $id  $(echo "$out" | sed 's/.*signature: //')"; else echo "MISSED   $id  $out"; fail=1; fi
done
exit $fail
