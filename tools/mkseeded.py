#!/usr/bin/env python3
"""Builds /verif/seeded/<ID>-<A|B>/ from the sub-agents' deliverables under /tmp/mut and the run logs."""
import json, os, re, shutil, glob

SUMMARY = {
 "C01-A": ("RRT::solve accepts the problem if ANY entry of start_states is valid while the tree is rooted at start_states[0]", "more than one start state, the first rejected by the checker (marginally inside an obstacle), a later one valid"),
 "C01-B": ("PRM::setup clears the roadmap only when the new problem's space Arc differs from the previous one", "history setup -> construct_roadmap -> setup (same space object, stricter checker) -> solve"),
 "C02-A": ("RRT::reconstruct_path bounds the parent walk one iteration short", "the solution branch is the whole tree (single chain), e.g. goal bias 1 in free space or a one-step solution"),
 "C02-B": ("RRTConnect::setup no longer clears the goal tree", "setup(P1), solve, setup(P2 with another goal), solve: the path ends at P1's stale goal root"),
 "C03-A": ("RRT clamps the new state into the space bounds AFTER the motion check", "a goal sample or an interpolation that leaves the bounds (non-convex SO2 interval)"),
 "C03-B": ("PRM caches the start connections of the first query; set_problem_definition does not clear the cache", "history construct, solve, set_problem_definition(new start), solve"),
 "C04-A": ("SO3 sample_uniform skips the cone rejection when max_angle >= get_maximum_extent() (= pi/2, not pi)", "cones with pi/2 <= radius < pi"),
 "C04-B": ("RRT* steers with t = search_radius / dist instead of max_distance / dist", "RRT* with search radius > step: the new node is extrapolated past the sample"),
 "C05-A": ("SO3 interpolate drops the hemisphere sign in the near-parallel (nlerp) branch only", "orientations closer than ~0.063 rad given by opposite-sign quaternions, step smaller than their separation"),
 "C05-B": ("PRM start-connection cache not cleared by set_problem_definition (as C03-B, written independently)", "construct, solve, set_problem_definition(different start), solve"),
 "C06-A": ("RRT* checks the deadline at the bottom of the loop, so the `continue` paths skip it", "extensions persistently rejected (start sealed into a pocket smaller than the step) or a sampler that always fails"),
 "C06-B": ("RRTConnect::setup no longer clears the goal tree", "second setup() on the same planner with a world in which the goal is sealed: Ok(path) through the new wall via stale goal-tree nodes"),
 "C07-A": ("RRT-Connect does not hand the generator back in the 'no valid goal root' branch", "a solve on a problem whose goal region is entirely invalid, then re-setup and solve on the same instance"),
 "C07-B": ("RRTStar::new treats seed 0 as 'no seed'", "RRT* with PlannerConfig { seed: Some(0) }"),
 "C08-A": ("RRT-Connect treats an empty goal tree as a valid root", "the goal sampler fails at its first call (inside setup): solve panics with index out of bounds"),
 "C08-B": ("RRTStar::setup clears the tree only when the start list is non-empty", "setup(P1), setup(P2 with an empty start list), solve: a path from P1's start instead of InvalidStartState"),
 "C09-A": ("SO2 distance folds the difference once instead of wrapping it", "raw angles more than 2 pi apart: negative distance"),
 "C09-B": ("SO3 distance applies min(1.0) before abs()", "d(q, -q) for unit q whose squared norm rounds above 1: NaN"),
 "C10-A": ("SO3 interpolate: nlerp branch no longer flips the sign of `to`", "nearly identical rotations with quaternion dot in [-1, -0.9995)"),
 "C10-B": ("SO2 interpolate replaces the final normalise() by one conditional +-2 pi wrap", "non-canonical `from` one turn off crossing the seam, or two or more turns off"),
 "C11-A": ("SO3 enforce_bounds returns early after replacing a zero quaternion by the identity", "zero / near-zero quaternion and a cone that does not contain the identity"),
 "C11-B": ("SO2StateSpace::new: emptiness test after clamping weakened from !(lo < hi) to lo > hi", "interval touching [-pi, pi] from outside at one point, e.g. (pi, 4): accepted, sampling panics"),
 "C12-A": ("same slip as C11-B, written independently", "(pi, 4), (-4, -pi), (pi, inf), also as SE2 yaw bounds"),
 "C12-B": ("SO3State::normalise: zero test norm < 1e-9 became norm == 0.0", "components around 1e-162..1e-157 whose squares are subnormal: result has magnitude ~1.006"),
 "C13-A": ("SE3StateSpace::new (bounded branch) builds the compound with weights [w, 1] instead of [1, w]", "bounded SE(3) with w != 1"),
 "C13-B": ("CompoundStateSpace::interpolate returns `from` when the weighted distance is 0", "states differing only in zero-weight (or underflowing-weight) components"),
 "C14-A": ("SO3 sample_uniform keeps the unit-ball rejection only for the unbounded space", "bounded cones: in bounds but no longer Haar-uniform"),
 "C14-B": ("SO2StateSpace::new caches a sampling width from the requested (unclamped) bounds; sample_uniform draws lower + U(0, width)", "requested interval sticking out of [-pi, pi], e.g. (-4, 1)"),
 "C15-A": ("RRT* rewires when cost_via_new <= cost (was <)", "a state whose recorded cost went stale is sampled twice more: parent-link cycle (six-sample scripted run)"),
 "C15-B": ("RRT-Connect goal-root re-draw no longer clears the goal tree before pushing the new root", "goal sample drawn in setup is invalid, a later one valid: forest with an invalid node 0 and a second root"),
 "C16-A": ("RRT-Connect picks the tree to grow with >= instead of <=", "trees of different size (after an iteration whose connect step was blocked)"),
 "C16-B": ("RRT* moves the nearest->new motion check behind choose-parent and skips it when a cheaper neighbour was validated", "obstacle on the nearest edge plus a cheaper neighbour with a free line to the new state"),
 "C17-A": ("RRT* rewire loop skips the nearest node instead of the new node's parent", "choose-parent picked a non-nearest parent and the nearest node becomes cheaper through the new node"),
 "C17-B": ("RRT* default parent cost uses the distance to the sample, not to the new node", "truncated steer and nearest node outside the search radius (radius <= step)"),
 "C18-A": ("PRM links milestones at dist <= radius (was <)", "two valid samples exactly one radius apart"),
 "C18-B": ("PRM BFS no longer stops at the first goal milestone; afterwards picks the reached goal milestone with the lowest index", "several goal milestones reachable, an earlier-sampled one more hops away"),
 "C19-A": ("PyRrtConnect::new takes max_distance as f32", "a step not exactly representable in f32 (0.3; 0.5 is unaffected)"),
 "C19-B": ("PySE2StateSpace::new appends (-pi, pi) to a bounds list of exactly two entries", "SE2StateSpace(w, [(..),(..)]): Python returns a space, the core DimensionMismatch"),
 "C20-A": ("SE3 validity checker uses is_truthy() instead of strict bool extraction", "from_se3 problems with a callback returning a truthy non-bool (1, 'invalid', 0.5, [False])"),
 "C20-B": ("goal is_satisfied falls back to distance_goal(state) <= threshold when the callback raises AttributeError", "AttributeError raised inside the user's is_satisfied on a goal that defines distance_goal"),
}


# second round (fresh sub-agents, told which ideas round 1 had already used); stored as <ID>-C / <ID>-D
SUMMARY2 = {
 "C01-C": ("CompoundStateSpace::interpolate skips zero-weight subspaces: the motion check validates the parent's value of that component while the stored node carries the sample's", "SE2/SE3/compound space with a zero-weight component and a checker that depends on it"),
 "C01-D": ("RRTStar::check_motion returns true (instead of is_valid(to)) when the motion needs <= 1 step", "extension no longer than one checking step: small max_distance or coarse resolution fraction"),
 "C02-C": ("PRM::solve passes the start through space.enforce_bounds before putting it at the head of the path", "out-of-bounds or non-canonical start state"),
 "C02-D": ("RRTStar::solve stops on goal.distance_goal(q) <= EPSILON instead of goal.is_satisfied(q)", "a goal whose predicate is stricter than 'distance to the region is zero' (half disc)"),
 "C03-C": ("RRT* memoises choose-parent motion checks by neighbour-list position but looks them up by tree index: a rewired edge is never motion-checked", "one of the first tree nodes rewired while the neighbour list is not [0,1,2,...]"),
 "C03-D": ("SO2 distance 'simplified' to |d| / 2pi-|d|: negative for raw angles > 2 pi apart, so check_motion computes 0 steps", "un-normalised SO2 state set through the public field (start 3pi/2)"),
 "C04-C": ("SO2StateSpace::new checks the clamped interval but stores the caller's unclamped upper bound", "angular interval whose upper end is given beyond pi, e.g. (1, 4), route ending near pi"),
 "C04-D": ("SO3 interpolate drops the hemisphere sign in the nlerp branch (as C05-A), steering near the cone boundary extrapolates out of the cone", "bounded SO3, step < 0.063 rad, nearby rotations of opposite quaternion sign"),
 "C05-C": ("SO2 interpolate takes the short way across the seam only when the bounds cover the full circle", "bounded SO2 interval wider than pi, node and sample at opposite ends"),
 "C05-D": ("RRT* find_neighbours is called with the raw sample instead of the steered state", "search radius >= 2 x step, far sample, choose-parent/rewire edge on the solution branch"),
 "C06-C": ("RRT-Connect goal-root re-draw counts only sampler errors as attempts", "goal region entirely invalid: solve(T) never returns, for any T"),
 "C06-D": ("RRT::check_motion returns true without validating `to` when the motion needs <= 1 step", "step <= 0.1 x longest valid segment: the tree walks through walls to a sealed goal"),
 "C07-C": ("PRM::solve keeps goal indices in a HashSet and a new 'start connects directly to a goal milestone' shortcut iterates it", "start directly connectable to >= 2 goal milestones: result depends on per-instance hash order"),
 "C07-D": ("RRT-Connect goal-root draw factored into a helper that, inside solve(), no longer sees the taken generator and falls back to rand::rng()", "goal region partly invalid and the root drawn in setup invalid"),
 "C08-C": ("PRM caches goal-milestone indices in solve; set_problem_definition does not clear the cache", "setup(P1), construct, solve, set_problem_definition(P2), solve: path into P1's goal"),
 "C08-D": ("CompoundStateSpace::sample_uniform rewritten with flat_map drops a failing component's Err and returns a state missing that component", "compound/SE2/SE3 with an unsampleable component (SE2StateSpace::new(w, None)): planners panic"),
 "C09-C": ("RealVector distance rewritten over chunks of four pairs the leftover tail of state1 with the head of state2", "dimension >= 5 and not a multiple of 4"),
 "C09-D": ("Compound distance 'skip zero-weight subspace' uses break instead of continue", "a zero weight in a non-final position"),
 "C10-C": ("Compound interpolate skips components whose from/to sub-distance is exactly 0: the output keeps its old content there", "pair sharing one component exactly and an output buffer that differs from `from`"),
 "C10-D": ("SO3 nlerp branch renormalises only when |norm^2 - 1| > 1e-6", "rotations closer than ~4e-3 rad, 0 < t < 1"),
 "C11-C": ("SO3 enforce_bounds correction loop multiplies by reached/max instead of max/reached", "small cone (0.02-0.06 rad), state just outside within 0.063 rad of the centre (nlerp branch)"),
 "C11-D": ("SO2 enforce_bounds PI-representative branch tests upper > PI (dead: the constructor clamps to PI)", "interval reaching PI but not -PI, state exactly at +-PI"),
 "C12-C": ("SO3State::normalise overflow branch divides w by the stale infinite norm", "component above ~1.3e154 and w != 0"),
 "C12-D": ("RealVectorStateSpace::new compares bounds with total_cmp", "(x, NaN), (-NaN, x), (-0.0, 0.0)"),
 "C13-C": ("CompoundStateSpace::enforce_bounds returns early when satisfies_bounds(state)", "components that satisfy their bounds but are not canonical (un-normalised angle, non-unit quaternion)"),
 "C13-D": ("CompoundStateSpace::interpolate calls enforce_bounds on a result that violates the bounds", "interpolant leaving the bounds (endpoint outside a box, SO2 short arc leaving a restricted interval)"),
 "C14-C": ("SO3 sample_uniform fast path for cones < 0.3 rad draws the axis with polar = PI*u instead of acos(1-2u)", "bounded SO3 with max_angle < 0.3 rad: axis direction not uniform"),
 "C14-D": ("R^n sampling draws raw words in batches of 8 but refills only at i == 0: coordinate i >= 8 reuses the word of coordinate i-8", "dimension >= 9: marginals uniform, coordinates 8 apart perfectly correlated"),
 "C15-C": ("RRT* choose-parent updates min_cost before the motion check: a blocked cheaper neighbour lowers the recorded cost; a later rewire closes a parent-link cycle", "detour round an obstacle, blocked cheap neighbour, one more nearby sample"),
 "C15-D": ("RRT::check_motion returns true for motions of <= 1 step (as C06-D)", "sample within 0.1 L of a tree node, just inside an obstacle"),
 "C16-C": ("RRT calls enforce_bounds on the steered state", "steered point leaves the bounds (bounded SO2 interval crossed through the seam)"),
 "C16-D": ("RRT-Connect: when the goal tree grows and its new node satisfies the goal, the loop continues without connecting the start tree", "goal tree smaller (after a blocked connect) and its new node inside the goal region"),
 "C17-C": ("RRT* find_neighbours loop bound len-1: the most recent node is never a candidate", "previous iteration's node within the radius and cheaper / rewirable"),
 "C17-D": ("RRT* choose-parent updates min_cost before the motion check (as C15-C)", "cheaper but blocked neighbour within the radius"),
 "C18-C": ("PRM goal-milestone cache keyed only by roadmap size, never reset", "second solve with a different goal, or a rebuilt roadmap of the same size"),
 "C18-D": ("PRM BFS tests the goal when a neighbour is discovered, not when a milestone is popped: start connections are never tested", "goal milestone within the connection radius of the start"),
 "C19-C": ("Python RealVectorStateSpace.set_longest_valid_segment_fraction returns early for fractions outside (0,1] (the core clamps > 1 to 1)", "fraction above 1 set before the problem definition is built, wall thinner than one step"),
 "C19-D": ("PyRrtStar::new passes max_distance as search_radius in the Compound arm only", "compound-space RRT* with search_radius != max_distance"),
 "C20-C": ("PyGoal::is_satisfied calls the user's method a second time when it raised", "transient raise at the call whose state really satisfies the goal"),
 "C20-D": ("RealVector validity checker memoises the last query: key stored before the Python call, verdict only after success", "a state on which the callback failed queried again immediately: stale True"),
}

# third round (fresh sub-agents, told the ideas of rounds 1 and 2); stored as <ID>-E / <ID>-F
SUMMARY3 = {
 "C01-E": ("RRT::check_motion loop rewritten as `t += 1/n; while t <= 1.0`: for ~40% of the step counts the float sum overshoots 1 and the end state is never validated", "motions of >= 9 checking steps (step > 0.8 L) ending just inside an obstacle"),
 "C01-F": ("RRT-Connect goal-root re-draw stores the candidate before testing it: after 100 rejected draws the last rejected sample stays the goal root", "goal region entirely (marginally) invalid: path ends in a rejected state instead of NoSolutionFound"),
 "C02-E": ("RRT::solve tests the goal outside the `if check_motion` block: a steered state in the goal whose motion was rejected ends the search", "goal region overlapping or adjacent to an obstacle: path returned whose last state is not in the goal"),
 "C02-F": ("RRTConnect::reconstruct_path no longer reverses; the junction exit was adapted, the 'start tree reached the goal directly' exit was not", "solve ending through the direct exit: path returned goal-first, start-last"),
 "C03-E": ("RRT-Connect caches ceil(max_distance / (0.1 L)) in setup() as a cap on motion-check steps", "public max_distance raised after setup() by more than 10x: edges checked with the stale count, gaps > L"),
 "C03-F": ("RRT* check_motion takes the edge length from the caller; choose-parent passes the stale extension length", "sample very close to the tree, cheaper neighbour ~10x farther beyond an obstacle"),
 "C04-E": ("SO3 sample_uniform fast path for cones < 0.5 rad uses ball radius sin(max_angle) instead of sin(max_angle/2) and skips the cone test", "bounded SO3 cone under 0.5 rad"),
 "C04-F": ("PRM::setup no longer clears the roadmap and construct_roadmap returns early on a non-empty one", "setup(pd1), construct, setup(pd2 with tighter bounds), construct, solve on one PRM object"),
 "C05-E": ("PRM::solve connects every valid start state to the roadmap while the path still begins at start_states.first()", "two or more start states, a later one fewer hops from the goal: first edge far longer than the radius"),
 "C05-F": ("RRT-Connect extend() calls enforce_bounds on the steered state in the Advanced branch", "bounded SO2 interval wider than pi, path across the seam"),
 "C06-E": ("RRT-Connect connect step loops extend() until reached or blocked, without a deadline check inside the loop", "max_distance tiny relative to the gap between the trees (1e-5 of the extent) or zero"),
 "C06-F": ("SO2 distance simplified to |d| / 2pi-|d| (as C03-D): negative for raw values more than 2 pi apart", "un-normalised start: all planners walk straight through walls into a sealed goal"),
 "C07-E": ("RRT* rewire loop breaks once start_time.elapsed() > timeout: the clock decides inside an iteration whether neighbours are re-parented", "a solve that times out inside an iteration followed by another solve on the same instance"),
 "C07-F": ("Python PyRrtStar::new passes a default PlannerConfig in the SE3 arm: the seed is dropped", "Python RRTStar on a from_se3 problem"),
 "C08-E": ("RRT::setup stores the problem definition with Option::get_or_insert", "setup(P1), setup(P2), solve: path for P1"),
 "C08-F": ("PRM::solve: goal-milestone scan and its NoSolutionFound return hoisted above the start lookup / validation", "invalid or missing start with a roadmap that has no goal milestone: NoSolutionFound instead of InvalidStartState"),
 "C09-E": ("SO3 distance small-angle branch (|dot| > 0.9999) measures the chord after flipping each quaternion to w >= 0", "nearly identical rotations by about pi (w ~ 0) of opposite sign: d = 2 pi"),
 "C09-F": ("SE3StateSpace::new bounded arm passes weight 1.0 to the compound", "translation-bounded SE(3) with rotation weight != 1"),
 "C10-E": ("SE2StateSpace::interpolate calls enforce_bounds on its result", "bounded SE2 whose yaw interval is crossed through the seam, or an end point outside the bounds"),
 "C10-F": ("SO2 interpolate seam test `diff > PI` became `diff >= PI`", "exactly antipodal angles: both directions walk clockwise, interpolate(a,b,t) != interpolate(b,a,1-t)"),
 "C11-E": ("RealVector enforce_bounds skips dimensions not bounded on both sides", "half-bounded box (0, inf) and a state beyond the finite bound"),
 "C11-F": ("Compound enforce_bounds skips components that already pass their bounds check (as C13-C)", "accepted but non-canonical components (non-unit quaternion, raw angle)"),
 "C12-E": ("SE3StateSpace::new tests bounds.len() < 3 instead of != 3", "four or more translation bounds: accepted, surplus (even NaN / inverted) entries dropped"),
 "C12-F": ("SO2State::wrap removes whole turns by x - floor(x/2pi) 2pi instead of rem_euclid", "angles of about 1e14 and above: stored angle outside [-pi, pi]"),
 "C13-E": ("Compound get_longest_valid_segment_length computes sqrt(sum w r^2) instead of sqrt(sum (w r)^2)", "a weight that is neither 0 nor 1"),
 "C13-F": ("Compound interpolate skips components whose from/to distance is exactly 0 (as C10-C)", "shared component and an output state that is not a copy of `from`"),
 "C14-E": ("Compound sample_uniform gives each component its own ChaCha stream positioned with set_word_pos(i) instead of set_stream(i)", "compound of three or more components: same-parity components read identical words (correlation 1, marginals uniform)"),
 "C14-F": ("SO3 sample_uniform proposes only from the w >= 0 hemisphere and tests the cone with a signed dot", "cone containing half-turns (centre angle + max_angle >= pi)"),
 "C15-E": ("SO2 interpolate uses to.value - from.value instead of the normalised difference", "tree root with a raw angle a full turn or more outside [-pi, pi)"),
 "C15-F": ("RRT-Connect caches 'start root is valid' in a flag that setup() never resets", "setup + solve with a valid start, then setup with an invalid start and solve: tree grown from an invalid root"),
 "C16-E": ("RRT* nearest-node scan breaks at the first node within max_distance", "two nodes within one step of the sample, the lower-indexed one farther away"),
 "C16-F": ("RRT-Connect applies the goal bias only while the start tree is being grown", "goal_bias > 0 and the goal tree smaller (after a blocked connect)"),
 "C17-E": ("RRT* choose-parent sorts candidates by the neighbour's own cost and stops at the first reachable improvement", "two neighbours on different branches both beating the nearest node"),
 "C17-F": ("RRT* goal check moved before the rewire loop: the goal-reaching iteration skips rewiring", "tree kept after a successful solve (second solve or snapshot)"),
 "C18-E": ("PRM construct_roadmap drops a valid sample at distance exactly 0 from an existing milestone", "repeated sample"),
 "C18-F": ("PRM BFS marks milestones visited when expanded rather than when discovered: a queued milestone's parent is overwritten", "two mutually linked milestones at equal BFS depth: path no longer hop-minimal"),
 "C19-E": ("PyRrt::new clips max_distance to space.get_maximum_extent() in the SO2 and SO3 arms (SO3 reports pi/2, distances reach pi)", "Python RRT on SO3 with max_distance > pi/2"),
 "C19-F": ("Python PlannerConfig(seed=0) treated as unseeded", "seed exactly 0"),
 "C20-E": ("validity-checker traceback limiter returns 'was the report suppressed' and is_valid uses it as the verdict: from the 17th failure on the state is accepted", "a fault region hit more than 16 times in one run"),
 "C20-F": ("Python PRM.setup() calls the callback once on the start state and propagates its exception / TypeError", "PRM with a callback failing on the start state or at its first call"),
}

# fourth round (fresh sub-agents, told the 120 ideas of rounds 1-3); stored as <ID>-G / <ID>-H
SUMMARY4 = {
 "C01-G": ("PRM::solve stops re-validating the start after one success; setup() resets the flag, set_problem_definition() does not", "setup, construct, solve (valid start), set_problem_definition(start marginally inside an obstacle), solve: path begins at a rejected state"),
 "C01-H": ("RealVectorStateSpace::interpolate clamps its result to the bounds: motion checks validate the clamped point, the tree stores the unclamped target", "goal region sticking out of the bounds, checker rejecting out-of-bounds states, goal sample within one step of a node"),
 "C02-G": ("PRM caches goal-milestone indices; setup() clears the cache, set_problem_definition() does not", "solve on P1, set_problem_definition(P2 with another goal), solve: path ends in P1's goal"),
 "C02-H": ("RRT* shortcut for a sample at distance 0 from its nearest node reconstructs the path from tree.len()-1 instead of the nearest node", "fixed-state goal sampler and a repeated solve() after another node was appended"),
 "C03-G": ("RRT-Connect extend() reports Reached with an existing node when the target is within 0.1 x step of the tree; the merge still drops 'the duplicate'", "connection with the other tree's nearest node within 10% of the step and step > L: unchecked junction segment"),
 "C03-H": ("step count moved into the space (valid_segment_count); the compound override weights the distance but not the resolution", "compound-family space with motion-carrying weights below 0.1 and edges longer than L"),
 "C04-G": ("SO2 interpolate uses raw to.value - from.value (as C15-E)", "start angle written two or more turns outside [-pi, pi)"),
 "C04-H": ("RRT stores a private step at setup() and steers with it while the guard reads the public max_distance", "setup(), lower max_distance, solve(): samples near the boundary are overshot"),
 "C05-G": ("RRT steer distance becomes max(max_distance, 0.1 L)", "step below 0.5% of the extent"),
 "C05-H": ("PRM construct_roadmap links a milestone that ended up with no edge to its closest milestone without a radius test", "small connection radius relative to the spacing of early milestones"),
 "C06-G": ("RealVector get_maximum_extent: unbounded test .any became .all, mixed bounded/unbounded boxes get an infinite extent and resolution", "R^n with some bounded and some unbounded coordinates: paths straight through a wall to a sealed goal"),
 "C06-H": ("PRM construct_roadmap looks at the build-time clock only every 32nd sample", "any build time > 0: up to 31 samples drawn after the deadline"),
 "C07-G": ("RRT::solve checks the deadline after drawing the sample: a timed-out solve has consumed one draw", "seeded RRT, a solve that times out, then another solve on the same instance"),
 "C07-H": ("SO3 sample_uniform direct-sampling path for cones < pi/4 draws the axis from rand::rng()", "SO3 space bounded to a narrow cone"),
 "C08-G": ("RRT-Connect goal-root re-draw no longer counts a failed draw as an attempt", "goal sampler that keeps failing once solve needs a new root: solve never returns"),
 "C08-H": ("SO2StateSpace::new post-clamp check !(lo < hi) became lo > hi (as C11-B)", "interval touching [-pi, pi] in one point: accepted, first uniform draw panics"),
 "C09-G": ("RealVector distance 1-D fast path returns v1 - v2 without abs()", "stand-alone 1-D space, state1 < state2"),
 "C09-H": ("SO2 distance skips the wrap-around when the bounds span at most pi", "narrow SO2 bounds and non-canonical or out-of-bounds angles: d > pi"),
 "C10-G": ("SO3 interpolate picks the hemisphere with a three-valued sgn(): sgn(0) = 0", "quaternion dot exactly 0 (rotations exactly half a turn apart): non-unit / zero result"),
 "C10-H": ("Compound interpolate end-point shortcut clones from at t == 0 and to at t == 1", "non-canonical SO2 component at exactly t = 0 or 1: result not canonical"),
 "C11-G": ("RealVector sample_uniform unbounded test !a || !b became !(a || b)", "half-bounded box (0, inf): sampling panics instead of UnboundedDimension"),
 "C11-H": ("SO2State::wrap rounding guard shifted >= 2pi became > 2pi (dead)", "angle one ulp below -pi wraps to +pi"),
 "C12-G": ("RealVectorStateSpace::new skips the ordering check for dimensions with an infinite end", "(inf, 0), (0, -inf), (inf, inf), (NaN, inf) accepted"),
 "C12-H": ("SO3StateSpace::new radius clamp max_angle.min(PI) became if max_angle > PI", "NaN radius stored as NaN: sampling never returns"),
 "C13-G": ("Compound satisfies_bounds skips components of weight 0", "weight exactly 0 and a state out of bounds only in that component"),
 "C13-H": ("SE3StateSpace::enforce_bounds clamps only the translation", "SE(3) state with a non-unit or zero quaternion"),
 "C14-G": ("R^n sample_uniform reuses a cached Uniform when only the lower bound matches the previous axis", "two consecutive axes with the same lower and different upper bounds"),
 "C14-H": ("SO3 rejection loop capped at 100 000 rounds, then the last proposal is projected onto the cone", "cone of about 0.12 rad or less: atom at max_angle"),
 "C15-G": ("RRT::setup seeds the tree with every start state; solve() validates only node 0", "two or more start states, a later one invalid"),
 "C15-H": ("RRT-Connect extend() applies enforce_bounds to the new state after the motion check", "out-of-bounds target (goal region past the bounds, SO2 seam crossing)"),
 "C16-G": ("RRT nearest_node_index initialised outside the iteration loop", "root nearest after an earlier iteration picked a non-root node: extension from the stale node"),
 "C16-H": ("RRT* check_motion loses its num_steps <= 1 early return: a motion of distance exactly 0 is accepted with no query", "distinct states at distance 0 (zero-weight component) and an invalid sample"),
 "C17-G": ("RRT* rewire loop uses the provisional cost via the nearest node instead of the final cost after choose-parent", "choose-parent picked a non-nearest parent and another neighbour is rewirable"),
 "C17-H": ("RRT* neighbour list becomes a scratch buffer cleared at the end of each iteration; the goal-reached break skips the clear", "second solve() after a success without setup()"),
 "C18-G": ("PRM set_problem_definition re-arms a needs_construction flag: construct_roadmap after it samples again", "setup, construct, set_problem_definition, construct: roadmap grows"),
 "C18-H": ("PRM solve stops attaching the start after the first 8 connectable milestones", "more than 8 milestones connectable to the start, the useful one sampled later"),
 "C19-G": ("Python ProblemDefinition.from_compound calls goal.sample_goal() once", "Compound variant and a stateful goal sampler"),
 "C19-H": ("Python SO3StateSpace.distance returns 0.0 for identical / component-wise equal arguments", "distance of a state to itself where the core gives pi (zero quaternion) or ~3e-8"),
 "C20-G": ("shared is_valid helper prints a report using err.traceback(py).expect(...)", "callback failing without a Python frame (wrong arity, non-callable, C callable): PanicException"),
 "C20-H": ("exceptions outside the Exception hierarchy are restored as pending and re-raised after the planner returns", "callback raising KeyboardInterrupt / GeneratorExit / a BaseException subclass"),
}

# fifth round (fresh sub-agents, told the 160 ideas of rounds 1-4); stored as <ID>-I / <ID>-J
SUMMARY5 = {
 "C01-I": ("PRM::solve, when no milestone lies in the goal region, samples a goal state, links it to the roadmap and appends it to the path without validating it", "small goal region overlapping an obstacle, goal sample marginally inside it"),
 "C01-J": ("RRTConnect::solve tries a direct start-to-goal-root connection before the InvalidStartState check (check_motion never looks at `from`)", "first solve after setup, start marginally inside an obstacle, free line of sight to the goal root"),
 "C02-I": ("RRTConnect::solve 'start already satisfies the goal' shortcut builds the one-state path from the goal tree", "start state inside the goal region: the path's first state is the sampled goal root"),
 "C02-J": ("RRTConnect::solve moves the two trees out of self, swaps them by role and hands them back without consulting the role flag", "a solve ending while the goal tree was the grown one, then another solve without setup"),
 "C03-I": ("RRT::check_motion receives the deadline and breaks out of its loop when it expires, falling through to `true`", "timeout expiring mid-check, then the goal reached in that iteration or another solve on the same tree"),
 "C03-J": ("PRM::solve connects every valid start state and pools the connections while the path still begins at the first start", "two or more start states, goal reached through a milestone connected from a later one"),
 "C04-I": ("SO2 interpolate `diff > PI` became `diff >= PI` (as C10-F)", "half-circle interval, start exactly pi below the goal sample: the path runs outside the interval"),
 "C04-J": ("R^n sample_uniform samples one-sided coordinates in a unit window next to the finite bound; the (-inf, upper) arm puts it above the bound", "box with a (-inf, finite) coordinate"),
 "C05-I": ("Compound interpolate passes t * weight_i to each subspace", "compound / SE2 / SE3 with a weight above 1"),
 "C05-J": ("Python RRTConnect SE3 arm calls new(goal_bias, max_distance, ...)", "Python RRT-Connect on SE(3) with max_distance < goal_bias"),
 "C06-I": ("PRM construct_roadmap build-time check became elapsed > timeout && !roadmap.is_empty()", "all-invalid world or a sampler that always fails: construction never returns"),
 "C06-J": ("PRM::solve attaches the nearest milestone without check_motion when nothing passes the radius and motion test", "start sealed into a pocket too small to hold a milestone: Ok(path) through the wall"),
 "C07-I": ("PRM::solve start-connection loop breaks once the budget is used up and the BFS runs with a fresh timer", "deadline expiring during start connection (zero or tiny timeout): the clock decides the answer"),
 "C07-J": ("RRT-Connect goal-root re-draw loop checks the clock and takes the 'no valid root' exit", "partly invalid goal region, invalid root from setup, zero or tiny budget: NoSolutionFound instead of Timeout"),
 "C08-I": ("PRM construction budget hoisted into Duration::from_secs_f64(self.timeout)", "negative (or NaN / huge) construction timeout: panic"),
 "C08-J": ("PRM::solve merges the two PlannerUninitialised look-ups into a match whose mixed case is unreachable!", "new, set_problem_definition(P2), [construct_roadmap], solve without setup: panic"),
 "C09-I": ("RealVector distance rewritten as sqrt(max(0, |a|^2 + |b|^2 - 2 a.b))", "near-identical states, or large states that differ slightly (cancellation)"),
 "C09-J": ("SO3 distance returns 0 whenever |dot| > 1 - 1e-9", "rotations closer than about 9e-5 rad"),
 "C10-I": ("SO3 interpolate: branch test on the signed dot, hemisphere sign applied only inside the SLERP branch", "to == -from (dot exactly -1): NaN for every t"),
 "C10-J": ("RealVector interpolate in blocks of four with a slip in the fourth lane: a[3] + (b[3] - a[2]) t", "dimension >= 4 and from[2] != from[3]"),
 "C11-I": ("SO3 satisfies_bounds slack becomes relative: max_angle (1 + 1e-7)", "degenerate cones (radius 0 .. 1e-5) whose centre's self dot product rounds below 1"),
 "C11-J": ("SO3State::normalise overflow branch returns the quaternion divided by its largest component without renormalising", "overflowing quaternion with two or more comparable huge components"),
 "C12-I": ("SO3StateSpace::new negative-radius check max_angle < 0 became < -BOUNDS_TOLERANCE", "radius in [-1e-7, 0)"),
 "C12-J": ("SO2StateSpace::new clamp rewritten as if lower < -PI {..} else if upper > PI {..}", "both ends outside [-pi, pi] at once: (-4, 4) stored as (-pi, 4)"),
 "C13-I": ("Compound distance accumulates w*w * d*d instead of (d*w)^2", "weights above 1.3e154 or below 1e-154"),
 "C13-J": ("SE2StateSpace::new replaces a rotation weight that is not > 0 by 1", "SE(2) with rotation weight exactly 0"),
 "C14-I": ("SO2 sample_uniform places the arc by the circular mean of its bounds and clamps", "interval wider than pi that is not the full circle: samples pile up at the ends"),
 "C14-J": ("SE3 sample_uniform draws the rotation with Shoemake's algorithm, assuming an unbounded rotation part", "SE3StateSpace assembled from a compound with a cone-bounded SO(3) component"),
 "C15-I": ("RRTConnect::solve hands the swapped trees back without the role flag (as C02-J)", "call ending while the goal tree is being grown, then a second solve or a tree inspection"),
 "C15-J": ("Compound interpolate skips zero-weight components (as C01-C)", "zero weight, obstacle on that component, motion longer than one check step"),
 "C16-I": ("RRT* caches the goal-bias coin (Bernoulli) in new()", "public goal_bias changed after construction"),
 "C16-J": ("RRT: a failed goal.sample_goal in the goal-biased branch falls back to sample_uniform", "goal_bias 1 and a goal sampler that returns Err"),
 "C17-I": ("RRT* check_motion clamps the distance used for the step count with .min(max_distance)", "search radius > step: choose-parent / rewire edges checked at a coarser spacing (still below L unless radius > 10 x step)"),
 "C17-J": ("Python PyRrtStar::new swaps max_distance and search_radius in the Compound arm (as C19-D)", "Python RRT* over a compound space with radius != step"),
 "C18-I": ("PRM solve attaches the start as a temporary roadmap node and pops it only on success", "a query that fails after the search started, then a roadmap inspection or another query"),
 "C18-J": ("PRM keeps a component label per milestone but folds only one foreign component when a sample merges several; solve drops goal milestones with another label", "a sample joining three or more components, then a query across the stale boundary"),
 "C19-I": ("Python PyPrm::setup caches the wrapped validity callback the first time it is called", "setup(cb1), setup(cb2), construct_roadmap, solve on one PRM object"),
 "C19-J": ("Python SO2State stores the angle directly when |value| <= pi", "SO2State(math.pi): +pi where the core holds -pi"),
 "C20-I": ("core RRT*: a goal-biased sample within one step is taken as the new node and accepted as goal without calling is_satisfied", "goal fault region overlapping the area sample_goal draws from"),
 "C20-J": ("Python validity checker latches an 'uncallable' flag on any TypeError and answers False from then on", "callback body raising TypeError in a partial region or at one call"),
}

# strengthened from the change description before the first run (so the first log already shows it caught)
PRE_EMPTED = {
 "C10-F": "not run against the earlier check: reading the description showed that the reversal clause skipped exactly antipodal pairs, which the statement includes; the clause was extended first",
}

def parse_results(files):
    res = {}
    cur = None
    for f in files:
        if not os.path.exists(f):
            continue
        for line in open(f):
            line = line.rstrip("\n")
            m = re.match(r"== (C\d\d)-([AB])", line)
            if m:
                cur = f"{m.group(1)}-{m.group(2)}"
                res.setdefault(cur, {})
                continue
            m = re.match(r"(C\d\d) rc=(\d+) (\d+) violation-lines; ?(.*)", line)
            if m and cur:
                sig = m.group(4).replace("signature: ", "").strip()
                res[cur][m.group(1)] = {"rc": int(m.group(2)), "signature": sig}
    return res

def build(summary, base, vmap, res, rows, first):
    for mid, (what, needs) in sorted(summary.items()):
        pid, v = mid.split("-")
        src = f"{base}/{pid}-out"
        sv = vmap.get(v, v)
        dst = f"/verif/seeded/{mid}"
        if not os.path.exists(f"{src}/{sv}.patch.diff"):
            if os.path.exists(f"{dst}/meta.json"):
                m = json.load(open(f"{dst}/meta.json"))
                rows.append((mid, what, needs, m["caught_by_quick_checks"], m["silent"], m["inconclusive"]))
            continue
        os.makedirs(dst, exist_ok=True)
        shutil.copy(f"{src}/{sv}.patch.diff", f"{dst}/patch.diff")
        demo = glob.glob(f"{src}/{sv}.demo.*")[0]
        shutil.copy(demo, f"{dst}/demo" + os.path.splitext(demo)[1])
        if os.path.exists(f"{src}/notes.md"):
            shutil.copy(f"{src}/notes.md", f"{dst}/agent_notes.md")
        confirm = open(f"{src}/{sv}.confirm.txt").read().strip().splitlines() if os.path.exists(f"{src}/{sv}.confirm.txt") else []
        r = res.get(f"{pid}-{sv}", {})
        caught = sorted(k for k, x in r.items() if x["rc"] == 1)
        silent = sorted(k for k, x in r.items() if x["rc"] == 0)
        other = sorted(k for k, x in r.items() if x["rc"] not in (0, 1))
        meta = {
            "id": mid, "breaks_property": pid, "change": what, "needs_to_manifest": needs,
            "written_by": "fresh sub-agent given only the property text, the one-line ideas already used in round 1, and a scratch worktree of /repo",
            "confirmed_in_scratch_worktree": confirm,
            "how_confirmed": "tools/confirm_mutant.sh: worktree of /repo HEAD; demo passes without the patch; patch applies; `cargo test -p oxmpl --offline` (70 tests) passes with it; demo fails with it",
            "checks_run": {k: x for k, x in sorted(r.items())},
            "caught_by_quick_checks": caught, "silent": silent, "inconclusive": other,
            "caught_by_own_property_check": pid in caught,
            "first_run_before_strengthening": first.get(f"{pid}-{sv}", {}),
            "own_check_missed_it_at_first": first.get(f"{pid}-{sv}", {}).get(pid, {}).get("rc") != 1 or mid in PRE_EMPTED,
            "note": PRE_EMPTED.get(mid, ""),
            "how_run": "tools/run_mutant.sh <patch> <IDs>: git -C /repo apply; ./check <ID> quick; git -C /repo checkout -- .",
        }
        json.dump(meta, open(f"{dst}/meta.json", "w"), indent=1)
        rows.append((mid, what, needs, caught, silent, other))


def main():
    rows2 = []
    if os.path.exists("/verif/seeded/logs/round2_quick_checks.txt"):
        res2 = parse_results(["/verif/seeded/logs/round2_quick_checks.txt", "/verif/seeded/logs/round2_after_strengthening.txt"])
        first2 = parse_results(["/verif/seeded/logs/round2_quick_checks.txt"])
        build(SUMMARY2, "/tmp/mut2", {"C": "A", "D": "B"}, res2, rows2, first2)
    rows3 = []
    if os.path.exists("/verif/seeded/logs/round3_quick_checks.txt"):
        res3 = parse_results(["/verif/seeded/logs/round3_quick_checks.txt", "/verif/seeded/logs/round3_after_strengthening.txt"])
        first3 = parse_results(["/verif/seeded/logs/round3_quick_checks.txt", "/verif/seeded/logs/round3_before_retune_widening.txt"])
        build(SUMMARY3, "/tmp/mut3", {"E": "A", "F": "B"}, res3, rows3, first3)
    rows4 = []
    if os.path.exists("/verif/seeded/logs/round4_quick_checks.txt"):
        res4 = parse_results(["/verif/seeded/logs/round4_quick_checks.txt", "/verif/seeded/logs/round4_after_strengthening.txt"])
        first4 = parse_results(["/verif/seeded/logs/round4_quick_checks.txt"])
        build(SUMMARY4, "/tmp/mut4", {"G": "A", "H": "B"}, res4, rows4, first4)
    rows5 = []
    if os.path.exists("/verif/seeded/logs/round5_quick_checks.txt"):
        res5 = parse_results(["/verif/seeded/logs/round5_quick_checks.txt", "/verif/seeded/logs/round5_after_strengthening.txt"])
        first5 = parse_results(["/verif/seeded/logs/round5_quick_checks.txt"])
        build(SUMMARY5, "/tmp/mut5", {"I": "A", "J": "B"}, res5, rows5, first5)
    res = parse_results(["/verif/seeded/logs/quick_checks_final.txt", "/verif/seeded/logs/quick_checks_after_strengthening.txt"])
    rows = []
    for mid, (what, needs) in sorted(SUMMARY.items()):
        pid, v = mid.split("-")
        src = f"/tmp/mut/{pid}-out"
        dst = f"/verif/seeded/{mid}"
        if not os.path.exists(f"{src}/{v}.patch.diff"):
            # scratch sources already removed: keep what was stored
            if os.path.exists(f"{dst}/meta.json"):
                m = json.load(open(f"{dst}/meta.json"))
                rows.append((mid, what, needs, m["caught_by_quick_checks"], m["silent"], m["inconclusive"]))
            continue
        os.makedirs(dst, exist_ok=True)
        shutil.copy(f"{src}/{v}.patch.diff", f"{dst}/patch.diff")
        demo = glob.glob(f"{src}/{v}.demo.*")[0]
        shutil.copy(demo, f"{dst}/demo" + os.path.splitext(demo)[1])
        if os.path.exists(f"{src}/notes.md"):
            shutil.copy(f"{src}/notes.md", f"{dst}/agent_notes.md")
        confirm = open(f"{src}/{v}.confirm.txt").read().strip().splitlines() if os.path.exists(f"{src}/{v}.confirm.txt") else []
        r = res.get(mid, {})
        caught = sorted(k for k, x in r.items() if x["rc"] == 1)
        silent = sorted(k for k, x in r.items() if x["rc"] == 0)
        other = sorted(k for k, x in r.items() if x["rc"] not in (0, 1))
        meta = {
            "id": mid, "breaks_property": pid, "change": what, "needs_to_manifest": needs,
            "written_by": "fresh sub-agent given only the property text and a scratch worktree of /repo",
            "confirmed_in_scratch_worktree": confirm,
            "how_confirmed": "tools/confirm_mutant.sh: worktree of /repo HEAD; demo passes without the patch; patch applies; `cargo test -p oxmpl --offline` (70 tests) passes with it; demo fails with it",
            "checks_run": {k: x for k, x in sorted(r.items())},
            "caught_by_quick_checks": caught, "silent": silent, "inconclusive": other,
            "caught_by_own_property_check": pid in caught,
            "how_run": "tools/run_mutant.sh <patch> <IDs>: git -C /repo apply; ./check <ID> quick; git -C /repo checkout -- .",
        }
        json.dump(meta, open(f"{dst}/meta.json", "w"), indent=1)
        rows.append((mid, what, needs, caught, silent, other))
    rows = sorted(rows + rows2 + rows3 + rows4 + rows5)
    with open("/verif/seeded/SUMMARY.md", "w") as f:
        f.write("# Seeded changes written by sub-agents and the outcome of the quick checks\n\n")
        f.write("| id | change | needs | caught by (quick tier) | silent (run, not expected to fire unless listed first) |\n|---|---|---|---|---|\n")
        for mid, what, needs, caught, silent, other in rows:
            f.write(f"| {mid} | {what} | {needs} | {', '.join(caught) or '-'}{' ; inconclusive: ' + ', '.join(other) if other else ''} | {', '.join(silent) or '-'} |\n")
    print(len(rows), "seeded changes written")

if __name__ == "__main__":
    main()
