#!/usr/bin/env python3
"""Builds /verif/seeded/<ID>-<A|B>/ from the sub-agents' deliverables under /tmp/mut and the run logs."""
import json, os, re, shutil, glob

SUMMARY = {
 "C01-A": ("RRT::solve accepts the problem if ANY entry of start_states is valid while the tree is rooted at start_states[0]", "more than one start state, the first rejected by the checker (marginally inside an obstacle), a later one valid"),
 "C01-B": ("PRM::setup clears the roadmap only when the new problem's space Arc differs from the previous one", "history setup -> construct_roadmap -> setup (same space object, stricter checker) -> solve"),
 "C02-A": ("RRT::reconstruct_path bounds the parent walk one iteration short", "the solution branch is the whole tree (single chain), e.g. goal bias 1 in free space or a one-step solution"),
 "C02-B": ("RRTConnect::setup no longer clears the goal tree", "setup(P1), solve, setup(P2 with another goal), solve: the path ends at P1's stale goal root"),
 "C03-A": ("RRT clamps the new state into the space bounds AFTER the motion check", "a goal sample or an interpolation that leaves the bounds (non-convex SO2 interval)"),
 "C03-B": ("PRM caches the start connections of the first query; set_problem_definition does not clear the cache", "history construct, solve, set_problem_definition(new start), solve"),
 "C04-A": ("SO3 sample_uniform skips the cone rejection when max_angle >= get_maximum_extent() (= pi/2, not pi)", "cones with pi/2 <= radius < pi"),
 "C04-B": ("RRT* steers with t = search_radius / dist instead of max_distance / dist", "RRT* with search radius > step: the new node is extrapolated past the sample"),
 "C05-A": ("SO3 interpolate drops the hemisphere sign in the near-parallel (nlerp) branch only", "orientations closer than ~0.063 rad given by opposite-sign quaternions, step smaller than their separation"),
 "C05-B": ("PRM start-connection cache not cleared by set_problem_definition (as C03-B, written independently)", "construct, solve, set_problem_definition(different start), solve"),
 "C06-A": ("RRT* checks the deadline at the bottom of the loop, so the `continue` paths skip it", "extensions persistently rejected (start sealed into a pocket smaller than the step) or a sampler that always fails"),
 "C06-B": ("RRTConnect::setup no longer clears the goal tree", "second setup() on the same planner with a world in which the goal is sealed: Ok(path) through the new wall via stale goal-tree nodes"),
 "C07-A": ("RRT-Connect does not hand the generator back in the 'no valid goal root' branch", "a solve on a problem whose goal region is entirely invalid, then re-setup and solve on the same instance"),
 "C07-B": ("RRTStar::new treats seed 0 as 'no seed'", "RRT* with PlannerConfig { seed: Some(0) }"),
 "C08-A": ("RRT-Connect treats an empty goal tree as a valid root", "the goal sampler fails at its first call (inside setup): solve panics with index out of bounds"),
 "C08-B": ("RRTStar::setup clears the tree only when the start list is non-empty", "setup(P1), setup(P2 with an empty start list), solve: a path from P1's start instead of InvalidStartState"),
 "C09-A": ("SO2 distance folds the difference once instead of wrapping it", "raw angles more than 2 pi apart: negative distance"),
 "C09-B": ("SO3 distance applies min(1.0) before abs()", "d(q, -q) for unit q whose squared norm rounds above 1: NaN"),
 "C10-A": ("SO3 interpolate: nlerp branch no longer flips the sign of `to`", "nearly identical rotations with quaternion dot in [-1, -0.9995)"),
 "C10-B": ("SO2 interpolate replaces the final normalise() by one conditional +-2 pi wrap", "non-canonical `from` one turn off crossing the seam, or two or more turns off"),
 "C11-A": ("SO3 enforce_bounds returns early after replacing a zero quaternion by the identity", "zero / near-zero quaternion and a cone that does not contain the identity"),
 "C11-B": ("SO2StateSpace::new: emptiness test after clamping weakened from !(lo < hi) to lo > hi", "interval touching [-pi, pi] from outside at one point, e.g. (pi, 4): accepted, sampling panics"),
 "C12-A": ("same slip as C11-B, written independently", "(pi, 4), (-4, -pi), (pi, inf), also as SE2 yaw bounds"),
 "C12-B": ("SO3State::normalise: zero test norm < 1e-9 became norm == 0.0", "components around 1e-162..1e-157 whose squares are subnormal: result has magnitude ~1.006"),
 "C13-A": ("SE3StateSpace::new (bounded branch) builds the compound with weights [w, 1] instead of [1, w]", "bounded SE(3) with w != 1"),
 "C13-B": ("CompoundStateSpace::interpolate returns `from` when the weighted distance is 0", "states differing only in zero-weight (or underflowing-weight) components"),
 "C14-A": ("SO3 sample_uniform keeps the unit-ball rejection only for the unbounded space", "bounded cones: in bounds but no longer Haar-uniform"),
 "C14-B": ("SO2StateSpace::new caches a sampling width from the requested (unclamped) bounds; sample_uniform draws lower + U(0, width)", "requested interval sticking out of [-pi, pi], e.g. (-4, 1)"),
 "C15-A": ("RRT* rewires when cost_via_new <= cost (was <)", "a state whose recorded cost went stale is sampled twice more: parent-link cycle (six-sample scripted run)"),
 "C15-B": ("RRT-Connect goal-root re-draw no longer clears the goal tree before pushing the new root", "goal sample drawn in setup is invalid, a later one valid: forest with an invalid node 0 and a second root"),
 "C16-A": ("RRT-Connect picks the tree to grow with >= instead of <=", "trees of different size (after an iteration whose connect step was blocked)"),
 "C16-B": ("RRT* moves the nearest->new motion check behind choose-parent and skips it when a cheaper neighbour was validated", "obstacle on the nearest edge plus a cheaper neighbour with a free line to the new state"),
 "C17-A": ("RRT* rewire loop skips the nearest node instead of the new node's parent", "choose-parent picked a non-nearest parent and the nearest node becomes cheaper through the new node"),
 "C17-B": ("RRT* default parent cost uses the distance to the sample, not to the new node", "truncated steer and nearest node outside the search radius (radius <= step)"),
 "C18-A": ("PRM links milestones at dist <= radius (was <)", "two valid samples exactly one radius apart"),
 "C18-B": ("PRM BFS no longer stops at the first goal milestone; afterwards picks the reached goal milestone with the lowest index", "several goal milestones reachable, an earlier-sampled one more hops away"),
 "C19-A": ("PyRrtConnect::new takes max_distance as f32", "a step not exactly representable in f32 (0.3; 0.5 is unaffected)"),
 "C19-B": ("PySE2StateSpace::new appends (-pi, pi) to a bounds list of exactly two entries", "SE2StateSpace(w, [(..),(..)]): Python returns a space, the core DimensionMismatch"),
 "C20-A": ("SE3 validity checker uses is_truthy() instead of strict bool extraction", "from_se3 problems with a callback returning a truthy non-bool (1, 'invalid', 0.5, [False])"),
 "C20-B": ("goal is_satisfied falls back to distance_goal(state) <= threshold when the callback raises AttributeError", "AttributeError raised inside the user's is_satisfied on a goal that defines distance_goal"),
}

def parse_results(files):
    res = {}
    cur = None
    for f in files:
        if not os.path.exists(f):
            continue
        for line in open(f):
            line = line.rstrip("\n")
            m = re.match(r"== (C\d\d)-([AB])", line)
            if m:
                cur = f"{m.group(1)}-{m.group(2)}"
                res.setdefault(cur, {})
                continue
            m = re.match(r"(C\d\d) rc=(\d+) (\d+) violation-lines; ?(.*)", line)
            if m and cur:
                sig = m.group(4).replace("signature: ", "").strip()
                res[cur][m.group(1)] = {"rc": int(m.group(2)), "signature": sig}
    return res

def main():
    res = parse_results(["/verif/seeded/logs/quick_checks_final.txt", "/verif/seeded/logs/quick_checks_after_strengthening.txt"])
    rows = []
    for mid, (what, needs) in sorted(SUMMARY.items()):
        pid, v = mid.split("-")
        src = f"/tmp/mut/{pid}-out"
        dst = f"/verif/seeded/{mid}"
        if not os.path.exists(f"{src}/{v}.patch.diff"):
            continue
        os.makedirs(dst, exist_ok=True)
        shutil.copy(f"{src}/{v}.patch.diff", f"{dst}/patch.diff")
        demo = glob.glob(f"{src}/{v}.demo.*")[0]
        shutil.copy(demo, f"{dst}/demo" + os.path.splitext(demo)[1])
        if os.path.exists(f"{src}/notes.md"):
            shutil.copy(f"{src}/notes.md", f"{dst}/agent_notes.md")
        confirm = open(f"{src}/{v}.confirm.txt").read().strip().splitlines() if os.path.exists(f"{src}/{v}.confirm.txt") else []
        r = res.get(mid, {})
        caught = sorted(k for k, x in r.items() if x["rc"] == 1)
        silent = sorted(k for k, x in r.items() if x["rc"] == 0)
        other = sorted(k for k, x in r.items() if x["rc"] not in (0, 1))
        meta = {
            "id": mid, "breaks_property": pid, "change": what, "needs_to_manifest": needs,
            "written_by": "fresh sub-agent given only the property text and a scratch worktree of /repo",
            "confirmed_in_scratch_worktree": confirm,
            "how_confirmed": "tools/confirm_mutant.sh: worktree of /repo HEAD; demo passes without the patch; patch applies; `cargo test -p oxmpl --offline` (70 tests) passes with it; demo fails with it",
            "checks_run": {k: x for k, x in sorted(r.items())},
            "caught_by_quick_checks": caught, "silent": silent, "inconclusive": other,
            "caught_by_own_property_check": pid in caught,
            "how_run": "tools/run_mutant.sh <patch> <IDs>: git -C /repo apply; ./check <ID> quick; git -C /repo checkout -- .",
        }
        json.dump(meta, open(f"{dst}/meta.json", "w"), indent=1)
        rows.append((mid, what, needs, caught, silent, other))
    with open("/verif/seeded/SUMMARY.md", "w") as f:
        f.write("# Seeded changes written by sub-agents and the outcome of the quick checks\n\n")
        f.write("| id | change | needs | caught by (quick tier) | silent (run, not expected to fire unless listed first) |\n|---|---|---|---|---|\n")
        for mid, what, needs, caught, silent, other in rows:
            f.write(f"| {mid} | {what} | {needs} | {', '.join(caught) or '-'}{' ; inconclusive: ' + ', '.join(other) if other else ''} | {', '.join(silent) or '-'} |\n")
    print(len(rows), "seeded changes written")

if __name__ == "__main__":
    main()
