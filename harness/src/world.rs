//! Worlds: pure validity functions over flat states.

use crate::flat::*;
use serde::{Deserialize, Serialize};

#[derive(Clone, Debug, PartialEq, Serialize, Deserialize)]
pub enum Obst {
    /// invalid iff ref_distance(c, s) <= r
    Ball { c: Vec<f64>, r: f64 },
    /// invalid iff every listed flat coordinate lies in its [lo, hi]
    Box { dims: Vec<(usize, f64, f64)> },
    /// wall: coordinate `idx` in [lo, hi], except where coordinate `door.0` is in [door.1, door.2]
    Wall {
        idx: usize,
        lo: f64,
        hi: f64,
        door: Option<(usize, f64, f64)>,
    },
    /// SO2 coordinate (flat index idx) within `half` of angle `c` (circular)
    Arc { idx: usize, c: f64, half: f64 },
    /// SO3 component at flat offset `off` within angle r of centre c
    Cone { off: usize, c: [f64; 4], r: f64 },
    /// closed shell: r_in <= ref_distance(c, s) <= r_out
    Shell { c: Vec<f64>, r_in: f64, r_out: f64 },
}

#[derive(Clone, Debug, PartialEq, Serialize, Deserialize, Default)]
pub struct World {
    pub obst: Vec<Obst>,
    /// if set, states farther than r from c are invalid (start sealed in)
    pub only_inside: Option<(Vec<f64>, f64)>,
    /// balls measured with the *space's own* distance: invalid iff space.distance(s, c) <= r.
    /// Only the logging checker (which owns the real space) evaluates them; they exist so that
    /// the Python differential (C19) has bit-identical obstacles on both sides. `World::valid`
    /// ignores them.
    #[serde(default)]
    pub sballs: Vec<(Vec<f64>, f64)>,
}

impl Obst {
    pub fn hits(&self, cfg: &SpaceCfg, s: &[f64]) -> bool {
        match self {
            Obst::Ball { c, r } => ref_distance(cfg, c, s) <= *r,
            Obst::Box { dims } => dims.iter().all(|(i, lo, hi)| s[*i] >= *lo && s[*i] <= *hi),
            Obst::Wall { idx, lo, hi, door } => {
                let inside = s[*idx] >= *lo && s[*idx] <= *hi;
                let in_door = door
                    .map(|(j, a, b)| s[j] >= a && s[j] <= b)
                    .unwrap_or(false);
                inside && !in_door
            }
            Obst::Arc { idx, c, half } => ref_so2_distance(s[*idx], *c) <= *half,
            Obst::Cone { off, c, r } => ref_so3_distance(c, &s[*off..*off + 4]) <= *r,
            Obst::Shell { c, r_in, r_out } => {
                let d = ref_distance(cfg, c, s);
                d >= *r_in && d <= *r_out
            }
        }
    }
}

impl World {
    pub fn valid(&self, cfg: &SpaceCfg, s: &[f64]) -> bool {
        if s.iter().any(|x| x.is_nan()) {
            return false;
        }
        if let Some((c, r)) = &self.only_inside {
            if ref_distance(cfg, c, s) > *r {
                return false;
            }
        }
        !self.obst.iter().any(|o| o.hits(cfg, s))
    }
    pub fn is_free(&self) -> bool {
        self.obst.is_empty() && self.only_inside.is_none() && self.sballs.is_empty()
    }
}
