//! Harness-side implementations of the user-supplied pieces of a planning problem: a recording /
//! scripted / faulty state-space wrapper, a goal, and a logging validity checker.

use crate::flat::*;
use crate::world::World;
use oxmpl::base::{
    error::StateSamplingError,
    goal::{Goal, GoalRegion, GoalSampleableRegion},
    space::StateSpace,
    validity::StateValidityChecker,
};
use rand::Rng;
use serde::{Deserialize, Serialize};
use std::cell::RefCell;
use std::marker::PhantomData;
use std::rc::Rc;

#[derive(Default, Debug, Clone)]
pub struct Rec {
    /// every validity query and its answer, in order
    pub vlog: Vec<(Vec<f64>, bool)>,
    /// for each entry of `vlog`: the value of the core's motion-check counter when the query was
    /// made (queries of one check_motion call share a value; queries made outside any motion
    /// check carry the value of the last one)
    pub vmotion: Vec<u64>,
    /// every state handed out by `sample_uniform`, in order
    pub samples: Vec<Vec<f64>>,
    /// every state handed out by `sample_goal`, in order
    pub goal_samples: Vec<Vec<f64>>,
    pub n_uniform_calls: usize,
    pub n_goal_calls: usize,
    /// the instant of every `sample_uniform` / `sample_goal` call (failed ones included), in
    /// order: `call_times.len() == n_uniform_calls + n_goal_calls`
    pub call_times: Vec<std::time::Instant>,
    pub n_satisfied_calls: usize,
    /// scripted samples (consumed front to back); when exhausted the real sampler is used
    pub script: Option<Vec<Vec<f64>>>,
    pub script_pos: usize,
    pub space_fail_at: Option<usize>,
    pub goal_fail_at: Option<usize>,
    pub fault_persists: bool,
    pub space_faults_hit: usize,
    pub goal_faults_hit: usize,
    /// when the validity log exceeds this many entries the iteration budget is zeroed
    pub query_cap: usize,
    pub cap_hit: bool,
}
pub type RecRef = Rc<RefCell<Rec>>;

pub const HARD_QUERY_CAP: usize = 1_500_000;
pub const HARNESS_ABORT: &str = "OXV-HARNESS-ABORT";

pub struct WSpace<K: Kind> {
    pub inner: K::SP,
    pub cfg: SpaceCfg,
    pub rec: RecRef,
}

impl<K: Kind> StateSpace for WSpace<K> {
    type StateType = K::S;
    fn distance(&self, a: &K::S, b: &K::S) -> f64 {
        self.inner.distance(a, b)
    }
    fn interpolate(&self, from: &K::S, to: &K::S, t: f64, out: &mut K::S) {
        self.inner.interpolate(from, to, t, out)
    }
    fn enforce_bounds(&self, s: &mut K::S) {
        self.inner.enforce_bounds(s)
    }
    fn satisfies_bounds(&self, s: &K::S) -> bool {
        self.inner.satisfies_bounds(s)
    }
    fn sample_uniform(&self, rng: &mut impl Rng) -> Result<K::S, StateSamplingError> {
        let k;
        {
            let mut r = self.rec.borrow_mut();
            k = r.n_uniform_calls;
            r.n_uniform_calls += 1;
            r.call_times.push(std::time::Instant::now());
            if r.space_fail_at.is_some_and(|f| k == f || (r.fault_persists && k > f)) {
                r.space_faults_hit += 1;
                return Err(StateSamplingError::UnboundedDimension { dimension_index: 0 });
            }
            if let Some(script) = &r.script {
                if r.script_pos < script.len() {
                    let v = script[r.script_pos].clone();
                    r.script_pos += 1;
                    r.samples.push(v.clone());
                    return Ok(K::dec(&self.cfg, &v));
                }
            }
        }
        let s = self.inner.sample_uniform(rng)?;
        self.rec.borrow_mut().samples.push(K::enc(&s));
        Ok(s)
    }
    fn get_longest_valid_segment_length(&self) -> f64 {
        self.inner.get_longest_valid_segment_length()
    }
}

#[derive(Clone, Debug, PartialEq, Serialize, Deserialize)]
pub struct GoalCfg {
    /// goal = union of metric balls of `radius` around the targets
    pub targets: Vec<Vec<f64>>,
    pub radius: f64,
    /// false: `sample_goal` returns the targets in rotation and consumes no randomness (the shape
    /// Python goals have); true: draws inside a ball from the *passed* generator.
    pub rng_sampler: bool,
    /// if true the predicate is stricter than "inside a ball": the first flat coordinate must
    /// also be >= the target's (a half ball), while `distance_goal` keeps reporting the distance
    /// to the full ball - a planner that tested `distance_goal == 0` instead of `is_satisfied`
    /// would stop at states that do not satisfy the goal
    #[serde(default)]
    pub half: bool,
}

/// The goal predicate on flat states, given the space's own distance to each target.
pub fn goal_pred(g: &GoalCfg, s_flat: &[f64], dist_to: impl Fn(usize) -> f64) -> bool {
    (0..g.targets.len()).any(|i| dist_to(i) <= g.radius && (!g.half || s_flat[0] >= g.targets[i][0]))
}

pub struct WGoal<K: Kind> {
    pub gcfg: GoalCfg,
    pub cfg: SpaceCfg,
    pub space: K::SP,
    pub targets: Vec<K::S>,
    pub rec: RecRef,
    pub _k: PhantomData<K>,
}

impl<K: Kind> WGoal<K> {
    pub fn new(gcfg: &GoalCfg, cfg: &SpaceCfg, space: K::SP, rec: RecRef) -> Self {
        let targets = gcfg.targets.iter().map(|t| K::dec(cfg, t)).collect();
        WGoal {
            gcfg: gcfg.clone(),
            cfg: cfg.clone(),
            space,
            targets,
            rec,
            _k: PhantomData,
        }
    }
    pub fn satisfied_pure(&self, s: &K::S) -> bool {
        let flat = if self.gcfg.half { K::enc(s) } else { vec![0.0] };
        goal_pred(&self.gcfg, &flat, |i| self.space.distance(s, &self.targets[i]))
    }
}

impl<K: Kind> Goal<K::S> for WGoal<K> {
    fn is_satisfied(&self, s: &K::S) -> bool {
        self.rec.borrow_mut().n_satisfied_calls += 1;
        self.satisfied_pure(s)
    }
}
impl<K: Kind> GoalRegion<K::S> for WGoal<K> {
    fn distance_goal(&self, s: &K::S) -> f64 {
        self.targets
            .iter()
            .map(|t| (self.space.distance(s, t) - self.gcfg.radius).max(0.0))
            .fold(f64::INFINITY, f64::min)
    }
}
impl<K: Kind> GoalSampleableRegion<K::S> for WGoal<K> {
    fn sample_goal(&self, rng: &mut impl Rng) -> Result<K::S, StateSamplingError> {
        let k;
        {
            let mut r = self.rec.borrow_mut();
            k = r.n_goal_calls;
            r.n_goal_calls += 1;
            r.call_times.push(std::time::Instant::now());
            if r.goal_fail_at.is_some_and(|f| k == f || (r.fault_persists && k > f)) {
                r.goal_faults_hit += 1;
                return Err(StateSamplingError::GoalRegionUnsatisfiable);
            }
        }
        let n = self.targets.len();
        let out = if !self.gcfg.rng_sampler {
            self.targets[k % n].clone()
        } else {
            let i = rng.random_range(0..n);
            let t = &self.targets[i];
            let u: f64 = rng.random::<f64>();
            match self.space.sample_uniform(rng) {
                Err(_) => t.clone(),
                Ok(q) => {
                    let d = self.space.distance(t, &q);
                    if d <= self.gcfg.radius * 0.999 {
                        q
                    } else {
                        let mut o = t.clone();
                        let tt = (self.gcfg.radius * 0.999 * u) / d;
                        self.space.interpolate(t, &q, tt, &mut o);
                        // soundness by construction: fall back to the target itself if rounding
                        // pushed the point outside the region
                        if self.space.distance(&o, t) <= self.gcfg.radius {
                            o
                        } else {
                            t.clone()
                        }
                    }
                }
            }
        };
        // soundness by construction also for half-ball goals
        let out = if self.satisfied_pure(&out) { out } else { self.targets[k % n].clone() };
        self.rec.borrow_mut().goal_samples.push(K::enc(&out));
        Ok(out)
    }
}

pub struct WChecker<K: Kind> {
    pub world: World,
    pub cfg: SpaceCfg,
    pub rec: RecRef,
    pub space: K::SP,
    pub sballs: Vec<(K::S, f64)>,
    pub _k: PhantomData<K>,
}
impl<K: Kind> StateValidityChecker<K::S> for WChecker<K> {
    fn is_valid(&self, s: &K::S) -> bool {
        let v = K::enc(s);
        let ans = self.world.valid(&self.cfg, &v)
            && !self
                .sballs
                .iter()
                .any(|(c, r)| self.space.distance(s, c) <= *r);
        let mut r = self.rec.borrow_mut();
        r.vlog.push((v, ans));
        r.vmotion.push(oxmpl::verif::motion_checks());
        if r.vlog.len() > r.query_cap && !r.cap_hit {
            r.cap_hit = true;
            oxmpl::verif::set_budget(Some(0));
        }
        // Hard cap: zeroing the budget only takes effect between iterations, and one iteration
        // can issue an astronomical number of queries (e.g. a negative step in a tiny space).
        // The log must not exhaust memory: abort the case (the executor turns this into a
        // recognisable outcome that every oracle treats as "discarded by the harness").
        if r.query_cap != usize::MAX && r.vlog.len() > HARD_QUERY_CAP {
            drop(r);
            panic!("{HARNESS_ABORT}: more than {HARD_QUERY_CAP} validity queries in one case");
        }
        ans
    }
}
