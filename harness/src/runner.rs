//! Generic driver: corpus replay, lattice enumeration, proptest-driven random generation over 16
//! workers, shrinking, replay files, known findings, evidence, watchdog.

use crate::choice::Ch;
use crate::exec::guarded;
use proptest::strategy::{Strategy, ValueTree};
use proptest::test_runner::{Config, RngSeed, TestCaseError, TestError, TestRunner};
use serde::{de::DeserializeOwned, Serialize};
use serde_json::{json, Value};
use std::collections::{BTreeMap, HashSet};
use std::hash::{Hash, Hasher};
use std::io::Write;
use std::path::PathBuf;
use std::sync::atomic::{AtomicBool, AtomicU64, Ordering};
use std::sync::{Arc, Mutex};
use std::time::{Duration, Instant};

/// VERIF_SEED (default 0), for checks that derive their own seeds.
pub fn verif_seed() -> u64 {
    static S: std::sync::OnceLock<u64> = std::sync::OnceLock::new();
    *S.get_or_init(|| {
        std::env::var("VERIF_SEED")
            .ok()
            .and_then(|s| s.parse::<i64>().ok())
            .map(|v| v as u64)
            .unwrap_or(0)
    })
}

#[derive(Clone, Copy, Debug, PartialEq, Eq)]
pub enum Tier {
    Quick,
    Thorough,
}
impl Tier {
    pub fn name(&self) -> &'static str {
        match self {
            Tier::Quick => "quick",
            Tier::Thorough => "thorough",
        }
    }
    pub fn pick<T>(&self, q: T, t: T) -> T {
        match self {
            Tier::Quick => q,
            Tier::Thorough => t,
        }
    }
}

/// What an oracle reports about one case.
#[derive(Default, Debug)]
pub struct Ctx {
    pub labels: Vec<String>,
    pub nontrivial: bool,
    pub discard: Option<String>,
    /// (signature, detail): each is either a known finding (by signature) or a violation
    pub problems: Vec<(String, String)>,
    pub panicked: bool,
    /// numeric counters summed over all cases (e.g. states / transitions explored)
    pub counters: Vec<(String, u64)>,
}
impl Ctx {
    pub fn count(&mut self, k: impl Into<String>, n: u64) {
        self.counters.push((k.into(), n));
    }
    pub fn label(&mut self, s: impl Into<String>) {
        self.labels.push(s.into());
    }
    pub fn fail(&mut self, sig: impl Into<String>, detail: impl Into<String>) {
        self.problems.push((sig.into(), detail.into()));
    }
    pub fn discard(&mut self, why: impl Into<String>) {
        if self.discard.is_none() {
            self.discard = Some(why.into());
        }
    }
}

pub trait Prop: 'static {
    type Case: Serialize + DeserializeOwned + Clone + Send + Sync + 'static;
    /// property id, e.g. "C09"
    const ID: &'static str;
    /// part name (a property may be decided by several parts)
    const PART: &'static str;
    const RULE: &'static str;
    const HANG_IS_VIOLATION: bool = false;
    /// per-part watchdog in seconds (0 = the global default, OXV_WATCHDOG_S or 180)
    const WATCHDOG_S: u64 = 0;
    /// proptest shrink budget (every shrink step re-runs the oracle: keep it small for parts
    /// whose single case costs seconds)
    const MAX_SHRINK_ITERS: u32 = 400;
    const CHOICE_LEN: usize = 256;
    fn random_cases(tier: Tier) -> usize;
    fn gen(ch: &mut Ch, tier: Tier) -> Self::Case;
    fn enumerate(_tier: Tier, _emit: &mut dyn FnMut(Self::Case)) {}
    fn enumeration_is_exhaustive(_tier: Tier) -> bool {
        false
    }
    fn check(case: &Self::Case, ctx: &mut Ctx);
}

#[derive(Clone, Debug, serde::Deserialize, Serialize)]
pub struct KnownFinding {
    pub property: String,
    pub signature: String,
    pub what: String,
    /// "known" suppresses (prints KNOWN-FINDING, exit 0); "fixed" suppresses nothing
    pub status: String,
    #[serde(default)]
    pub commit: Option<String>,
}

pub struct Opts {
    pub tier: Tier,
    pub seed: u64,
    pub verif_dir: PathBuf,
    pub known: Vec<KnownFinding>,
    pub threads: usize,
    pub watchdog: Duration,
    /// scale factor on random case counts (env OXV_SCALE), for experiments
    pub scale: f64,
    /// OXV_EXPLORE=1: tally all violation signatures instead of stopping at the first
    pub explore: bool,
}

impl Opts {
    pub fn from_env(tier: Tier) -> Opts {
        let seed = std::env::var("VERIF_SEED")
            .ok()
            .and_then(|s| s.parse::<i64>().ok())
            .map(|v| v as u64)
            .unwrap_or(0);
        let verif_dir = PathBuf::from(
            std::env::var("OXV_VERIF_DIR").unwrap_or_else(|_| "/verif".to_string()),
        );
        let known: Vec<KnownFinding> = std::fs::read_to_string(verif_dir.join("known_findings.json"))
            .ok()
            .and_then(|s| serde_json::from_str(&s).ok())
            .unwrap_or_default();
        let threads = std::env::var("OXV_THREADS")
            .ok()
            .and_then(|s| s.parse().ok())
            .unwrap_or(16);
        let watchdog = Duration::from_secs(
            std::env::var("OXV_WATCHDOG_S")
                .ok()
                .and_then(|s| s.parse().ok())
                .unwrap_or(180),
        );
        let scale = std::env::var("OXV_SCALE")
            .ok()
            .and_then(|s| s.parse().ok())
            .unwrap_or(1.0);
        Opts {
            tier,
            seed,
            verif_dir,
            known,
            threads,
            watchdog,
            scale,
            explore: std::env::var("OXV_EXPLORE").map(|v| v == "1").unwrap_or(false),
        }
    }
    pub fn is_known(&self, prop: &str, sig: &str) -> Option<&KnownFinding> {
        self.known
            .iter()
            .find(|k| k.property == prop && k.status == "known" && k.signature == sig)
    }
}

#[derive(Default, Debug)]
pub struct PartReport {
    pub part: String,
    pub rule: String,
    pub evaluations: u64,
    pub enumerated: u64,
    pub random: u64,
    pub corpus: u64,
    pub nontrivial: HashSet<u64>,
    pub labels: BTreeMap<String, u64>,
    pub discards: BTreeMap<String, u64>,
    pub known_hits: BTreeMap<String, u64>,
    pub counters: BTreeMap<String, u64>,
    pub panicked_cases: u64,
    pub samples: Vec<Value>,
    /// (replay path, signature, detail)
    pub violations: Vec<(String, String, String)>,
    pub exhaustive_enumeration: bool,
    pub infra_errors: Vec<String>,
}

fn hash_str(s: &str) -> u64 {
    #[allow(deprecated)]
    let mut h = std::hash::SipHasher::new();
    s.hash(&mut h);
    h.finish()
}

struct Shared {
    evaluations: AtomicU64,
    stop: AtomicBool,
    agg: Mutex<Agg>,
}
#[derive(Default)]
struct Agg {
    nontrivial: HashSet<u64>,
    labels: BTreeMap<String, u64>,
    discards: BTreeMap<String, u64>,
    known_hits: BTreeMap<String, u64>,
    panicked: u64,
    samples_nt: Vec<Value>,
    samples_tr: Vec<Value>,
    infra: Vec<String>,
    explore: BTreeMap<String, (u64, String, String)>,
    counters: BTreeMap<String, u64>,
}

/// Outcome of evaluating one case.
enum Eval {
    Pass,
    Violation(String, String),
    Infra(String),
}

fn eval_case<P: Prop>(
    case: &P::Case,
    json: &str,
    opts: &Opts,
    shared: &Shared,
    count: bool,
    local: &mut Agg,
) -> Eval {
    let mut ctx = Ctx::default();
    let r = guarded(|| P::check(case, &mut ctx));
    if let Err((msg, loc)) = r {
        return Eval::Infra(format!("oracle panicked: {msg} at {loc}"));
    }
    let mut violation: Option<(String, String)> = None;
    for (sig, detail) in &ctx.problems {
        if opts.is_known(P::ID, sig).is_some() {
            if count {
                *local.known_hits.entry(sig.clone()).or_insert(0) += 1;
            }
        } else if opts.explore {
            // exploration mode (OXV_EXPLORE=1): tally every signature, never stop
            let e = local.explore.entry(sig.clone()).or_insert((0, detail.clone(), json.to_string()));
            e.0 += 1;
        } else if violation.is_none() {
            violation = Some((sig.clone(), detail.clone()));
        }
    }
    if count {
        shared.evaluations.fetch_add(1, Ordering::Relaxed);
        if ctx.panicked {
            local.panicked += 1;
        }
        if let Some(d) = &ctx.discard {
            *local.discards.entry(d.clone()).or_insert(0) += 1;
        }
        for l in &ctx.labels {
            *local.labels.entry(l.clone()).or_insert(0) += 1;
        }
        for (k, n) in &ctx.counters {
            *local.counters.entry(k.clone()).or_insert(0) += n;
        }
        if ctx.nontrivial && ctx.discard.is_none() {
            local.nontrivial.insert(hash_str(json));
            if local.samples_nt.len() < 2 {
                if let Ok(v) = serde_json::from_str::<Value>(json) {
                    local.samples_nt.push(v);
                }
            }
        } else if local.samples_tr.is_empty() {
            if let Ok(v) = serde_json::from_str::<Value>(json) {
                local.samples_tr.push(v);
            }
        }
    }
    match violation {
        Some((s, d)) => Eval::Violation(s, d),
        None => Eval::Pass,
    }
}

fn merge(into: &mut Agg, from: Agg) {
    into.nontrivial.extend(from.nontrivial);
    for (k, v) in from.labels {
        *into.labels.entry(k).or_insert(0) += v;
    }
    for (k, v) in from.discards {
        *into.discards.entry(k).or_insert(0) += v;
    }
    for (k, v) in from.known_hits {
        *into.known_hits.entry(k).or_insert(0) += v;
    }
    into.panicked += from.panicked;
    for s in from.samples_nt {
        if into.samples_nt.len() < 3 {
            into.samples_nt.push(s);
        }
    }
    for s in from.samples_tr {
        if into.samples_tr.is_empty() {
            into.samples_tr.push(s);
        }
    }
    into.infra.extend(from.infra);
    for (k, v) in from.counters {
        *into.counters.entry(k).or_insert(0) += v;
    }
    for (k, v) in from.explore {
        let e = into.explore.entry(k).or_insert((0, v.1.clone(), v.2.clone()));
        e.0 += v.0;
    }
}

pub fn write_replay<P: Prop>(
    opts: &Opts,
    case_json: &str,
    sig: &str,
    detail: &str,
) -> String {
    let dir = opts.verif_dir.join("replays");
    let _ = std::fs::create_dir_all(&dir);
    let h = hash_str(case_json);
    let path = dir.join(format!("{}-{}-{:016x}.json", P::ID, P::PART, h));
    let case_v: Value = serde_json::from_str(case_json).unwrap_or(Value::Null);
    let doc = json!({
        "property": P::ID,
        "part": P::PART,
        "expected": "violation",
        "signature": sig,
        "detail": detail,
        "case": case_v,
    });
    let _ = std::fs::write(&path, serde_json::to_string_pretty(&doc).unwrap());
    path.to_string_lossy().to_string()
}

type Slot = Arc<Mutex<Option<(Instant, String)>>>;

fn rss_bytes() -> u64 {
    std::fs::read_to_string("/proc/self/statm")
        .ok()
        .and_then(|s| s.split_whitespace().nth(1).and_then(|x| x.parse::<u64>().ok()))
        .map(|pages| pages * 4096)
        .unwrap_or(0)
}
fn mem_limit() -> u64 {
    std::env::var("OXV_MEM_LIMIT_MB")
        .ok()
        .and_then(|s| s.parse::<u64>().ok())
        .unwrap_or(6144)
        << 20
}

pub fn run_part<P: Prop>(opts: &Opts) -> PartReport {
    let shared = Arc::new(Shared {
        evaluations: AtomicU64::new(0),
        stop: AtomicBool::new(false),
        agg: Mutex::new(Agg::default()),
    });
    let violations: Arc<Mutex<Vec<(String, String, String)>>> = Arc::new(Mutex::new(Vec::new()));
    // failing cases as first found, before shrinking: reported as they are when the watchdog or
    // the memory guard has to end the run while a worker is still shrinking
    let unshrunk: Arc<Mutex<Vec<(String, String, String)>>> = Arc::new(Mutex::new(Vec::new()));
    let mut report = PartReport {
        part: P::PART.to_string(),
        rule: P::RULE.to_string(),
        ..Default::default()
    };

    // ---- 1. corpus (committed regression inputs) + 2. enumeration -------------------------
    let mut fixed: Vec<P::Case> = Vec::new();
    let corpus_dir = opts.verif_dir.join("corpus").join(P::ID);
    if let Ok(rd) = std::fs::read_dir(&corpus_dir) {
        let mut files: Vec<_> = rd.filter_map(|e| e.ok()).map(|e| e.path()).collect();
        files.sort();
        for f in files {
            if f.extension().map(|e| e == "json").unwrap_or(false) {
                if let Ok(s) = std::fs::read_to_string(&f) {
                    if let Ok(v) = serde_json::from_str::<Value>(&s) {
                        if v.get("part").and_then(|p| p.as_str()) == Some(P::PART) {
                            if let Ok(c) = serde_json::from_value::<P::Case>(v["case"].clone()) {
                                fixed.push(c);
                                report.corpus += 1;
                            }
                        }
                    }
                }
            }
        }
    }
    let n_corpus = fixed.len();
    P::enumerate(opts.tier, &mut |c| fixed.push(c));
    report.enumerated = (fixed.len() - n_corpus) as u64;
    report.exhaustive_enumeration = P::enumeration_is_exhaustive(opts.tier) && report.enumerated > 0;

    let n_random = ((P::random_cases(opts.tier) as f64) * opts.scale).round() as usize;
    let threads = opts.threads.max(1);
    let fixed = Arc::new(fixed);
    let slots: Vec<Slot> = (0..threads).map(|_| Arc::new(Mutex::new(None))).collect();
    let done = Arc::new(AtomicU64::new(0));

    std::thread::scope(|scope| {
        for w in 0..threads {
            let shared = shared.clone();
            let violations = violations.clone();
            let unshrunk = unshrunk.clone();
            let fixed = fixed.clone();
            let slot = slots[w].clone();
            let done = done.clone();
            let opts_ref = &*opts;
            std::thread::Builder::new()
                .name(format!("oxv-{w}"))
                .stack_size(64 << 20)
                .spawn_scoped(scope, move || {
                    let mut local = Agg::default();
                    // fixed cases: round-robin
                    let mut i = w;
                    while i < fixed.len() {
                        if shared.stop.load(Ordering::Relaxed) {
                            break;
                        }
                        let case = &fixed[i];
                        let js = serde_json::to_string(case).unwrap_or_default();
                        *slot.lock().unwrap() = Some((Instant::now(), js.clone()));
                        match eval_case::<P>(case, &js, opts_ref, &shared, true, &mut local) {
                            Eval::Pass => {}
                            Eval::Violation(sig, detail) => {
                                let p = write_replay::<P>(opts_ref, &js, &sig, &detail);
                                violations.lock().unwrap().push((p, sig, detail));
                                shared.stop.store(true, Ordering::Relaxed);
                            }
                            Eval::Infra(e) => local.infra.push(e),
                        }
                        *slot.lock().unwrap() = None;
                        i += threads;
                    }
                    // random cases via proptest
                    let quota = n_random / threads + usize::from(w < n_random % threads);
                    if quota > 0 && !shared.stop.load(Ordering::Relaxed) {
                        let wseed = opts_ref
                            .seed
                            .wrapping_mul(0x9E37_79B9_7F4A_7C15)
                            .wrapping_add(hash_str(&format!("{}/{}/{}", P::ID, P::PART, w)));
                        let config = Config {
                            cases: quota as u32,
                            failure_persistence: None,
                            rng_seed: RngSeed::Fixed(wseed),
                            max_shrink_iters: P::MAX_SHRINK_ITERS,
                            max_global_rejects: u32::MAX,
                            ..Config::default()
                        };
                        let mut runner = TestRunner::new(config);
                        let strat =
                            proptest::collection::vec(proptest::num::u64::ANY, P::CHOICE_LEN);
                        let failed = std::cell::Cell::new(false);
                        let local_cell = std::cell::RefCell::new(std::mem::take(&mut local));
                        let tier = opts_ref.tier;
                        let result = runner.run(&strat, |raw| {
                            if !failed.get() && shared.stop.load(Ordering::Relaxed) {
                                return Ok(());
                            }
                            let mut ch = Ch::new(&raw);
                            let case = match guarded(|| P::gen(&mut ch, tier)) {
                                Ok(c) => c,
                                Err((m, l)) => {
                                    local_cell
                                        .borrow_mut()
                                        .infra
                                        .push(format!("generator panicked: {m} at {l}"));
                                    return Ok(());
                                }
                            };
                            let js = serde_json::to_string(&case).unwrap_or_default();
                            *slot.lock().unwrap() = Some((Instant::now(), js.clone()));
                            let count = !failed.get();
                            let ev = eval_case::<P>(
                                &case,
                                &js,
                                opts_ref,
                                &shared,
                                count,
                                &mut local_cell.borrow_mut(),
                            );
                            *slot.lock().unwrap() = None;
                            match ev {
                                Eval::Pass => Ok(()),
                                Eval::Violation(sig, detail) => {
                                    if !failed.get() {
                                        unshrunk.lock().unwrap().push((
                                            js.clone(),
                                            sig.clone(),
                                            detail,
                                        ));
                                    }
                                    failed.set(true);
                                    Err(TestCaseError::fail(sig))
                                }
                                Eval::Infra(e) => {
                                    local_cell.borrow_mut().infra.push(e);
                                    Ok(())
                                }
                            }
                        });
                        local = local_cell.into_inner();
                        if let Err(TestError::Fail(_, raw)) = result {
                            // re-derive the shrunk case and its detail
                            let mut ch = Ch::new(&raw);
                            let case = P::gen(&mut ch, tier);
                            let js = serde_json::to_string(&case).unwrap_or_default();
                            let mut scratch = Agg::default();
                            if let Eval::Violation(sig, detail) =
                                eval_case::<P>(&case, &js, opts_ref, &shared, false, &mut scratch)
                            {
                                let p = write_replay::<P>(opts_ref, &js, &sig, &detail);
                                violations.lock().unwrap().push((p, sig, detail));
                            } else if let Some((ujs, usig, udetail)) = unshrunk.lock().unwrap().last().cloned() {
                                // the failure was observed on a completed evaluation but does
                                // not show again on the shrunk input (an oracle over real time:
                                // C06, the timed parts of C03 / C07 / C15): report the case as it
                                // was first found
                                let p = write_replay::<P>(opts_ref, &ujs, &usig, &format!("{udetail} [not reproduced when re-run: depends on real time]"));
                                violations.lock().unwrap().push((p, usig, udetail));
                            } else {
                                local.infra.push(
                                    "shrunk case did not reproduce (flaky oracle?)".to_string(),
                                );
                            }
                            shared.stop.store(true, Ordering::Relaxed);
                        } else if let Err(TestError::Abort(r)) = result {
                            local.infra.push(format!("proptest aborted: {r}"));
                        }
                    }
                    merge(&mut shared.agg.lock().unwrap(), local);
                    done.fetch_add(1, Ordering::SeqCst);
                })
                .expect("spawn worker");
        }
        // a violation already found (and being shrunk) outranks a hang of some other case
        let report_unshrunk = |why: &str| {
            let v = violations.lock().unwrap();
            if let Some((p, sig, detail)) = v.first() {
                out(&format!("VIOLATION property={} replay={}", P::ID, p));
                out(&format!("  signature: {sig}"));
                out(&format!("  detail: {}", detail.chars().take(1500).collect::<String>()));
                std::process::exit(1);
            }
            drop(v);
            let u = unshrunk.lock().unwrap();
            if let Some((js, sig, detail)) = u.first() {
                let p = write_replay::<P>(opts, js, sig, detail);
                out(&format!("VIOLATION property={} replay={}", P::ID, p));
                out(&format!("  signature: {sig}"));
                out(&format!("  detail: {}", detail.chars().take(1500).collect::<String>()));
                out(&format!("  note: not shrunk ({why} while shrinking)"));
                std::process::exit(1);
            }
        };
        // watchdog
        loop {
            if done.load(Ordering::SeqCst) as usize == threads {
                break;
            }
            std::thread::sleep(Duration::from_millis(100));
            // memory guard: a planner that loops while pushing states (e.g. path extraction on a
            // cyclic tree) exhausts memory long before any time-based watchdog fires
            if rss_bytes() > mem_limit() {
                report_unshrunk("memory guard fired");
                let mut oldest: Option<(Instant, String)> = None;
                for s in &slots {
                    if let Some((t0, js)) = &*s.lock().unwrap() {
                        if oldest.as_ref().map(|o| *t0 < o.0).unwrap_or(true) {
                            oldest = Some((*t0, js.clone()));
                        }
                    }
                }
                let (_, js) = oldest.unwrap_or((Instant::now(), "null".into()));
                let detail = format!("resident memory exceeded {} MiB while this case was running (unbounded growth = non-termination)", mem_limit() >> 20);
                let p = write_replay::<P>(opts, &js, "hang", &detail);
                if P::HANG_IS_VIOLATION && opts.is_known(P::ID, "hang").is_none() {
                    out(&format!("VIOLATION property={} replay={}", P::ID, p));
                    out(&format!("  detail: {detail}"));
                    std::process::exit(1);
                } else {
                    out(&format!("INCONCLUSIVE property={} part={} memory guard fired; oldest running case saved to {}", P::ID, P::PART, p));
                    std::process::exit(2);
                }
            }
            for s in &slots {
                let g = s.lock().unwrap();
                if let Some((t0, js)) = &*g {
                    let wd = if P::WATCHDOG_S > 0 {
                        Duration::from_secs(P::WATCHDOG_S)
                    } else {
                        opts.watchdog
                    };
                    if t0.elapsed() > wd {
                        report_unshrunk("watchdog fired");
                        let sig = "hang";
                        let detail = format!(
                            "case did not finish within the {} s watchdog",
                            wd.as_secs()
                        );
                        let p = write_replay::<P>(opts, js, sig, &detail);
                        if P::HANG_IS_VIOLATION && opts.is_known(P::ID, sig).is_none() {
                            out(&format!("VIOLATION property={} replay={}", P::ID, p));
                            out(&format!("  detail: {detail}"));
                            std::process::exit(1);
                        } else {
                            out(&format!(
                                "INCONCLUSIVE property={} part={} watchdog fired; case saved to {}",
                                P::ID,
                                P::PART,
                                p
                            ));
                            std::process::exit(2);
                        }
                    }
                }
            }
        }
    });

    let agg = std::mem::take(&mut *shared.agg.lock().unwrap());
    report.evaluations = shared.evaluations.load(Ordering::Relaxed);
    report.random = report.evaluations.saturating_sub(report.enumerated + report.corpus);
    report.nontrivial = agg.nontrivial;
    report.labels = agg.labels;
    report.discards = agg.discards;
    report.known_hits = agg.known_hits;
    report.counters = agg.counters;
    report.panicked_cases = agg.panicked;
    report.samples = agg.samples_nt;
    report.samples.extend(agg.samples_tr);
    report.infra_errors = agg.infra;
    for (sig, (n, detail, js)) in &agg.explore {
        out(&format!("EXPLORE {} {} x{}: {}", P::ID, sig, n, detail.chars().take(400).collect::<String>()));
        let _ = write_replay::<P>(opts, js, sig, detail);
    }
    report.violations = std::mem::take(&mut *violations.lock().unwrap());
    report
}

/// Replays one case file through the oracle, bypassing proptest.
pub fn replay_part<P: Prop>(opts: &Opts, doc: &Value) -> Option<Vec<(String, String)>> {
    if doc.get("property").and_then(|p| p.as_str()) != Some(P::ID)
        || doc.get("part").and_then(|p| p.as_str()) != Some(P::PART)
    {
        return None;
    }
    let case: P::Case = serde_json::from_value(doc["case"].clone()).ok()?;
    // run the oracle on a worker thread so that a hang can be reported instead of blocking
    let wd = if P::WATCHDOG_S > 0 {
        Duration::from_secs(P::WATCHDOG_S)
    } else {
        opts.watchdog
    };
    let (tx, rx) = std::sync::mpsc::channel();
    let case2 = case.clone();
    std::thread::Builder::new()
        .stack_size(64 << 20)
        .spawn(move || {
            let mut ctx = Ctx::default();
            let _ = guarded(|| P::check(&case2, &mut ctx));
            let _ = tx.send(ctx);
        })
        .ok()?;
    let ctx = match rx.recv_timeout(wd) {
        Ok(c) => c,
        Err(_) => {
            let detail = format!("case did not finish within the {} s watchdog", wd.as_secs());
            if P::HANG_IS_VIOLATION && opts.is_known(P::ID, "hang").is_none() {
                return Some(vec![("hang".to_string(), detail)]);
            }
            out(&format!("INCONCLUSIVE property={} watchdog fired during replay", P::ID));
            std::process::exit(2);
        }
    };
    let mut out_v = Vec::new();
    for (sig, detail) in ctx.problems {
        if opts.is_known(P::ID, &sig).is_some() {
            out(&format!("KNOWN-FINDING: property={} {}", P::ID, sig));
        } else {
            out_v.push((sig, detail));
        }
    }
    Some(out_v)
}

// ---- output on the original stdout (fd 1 is redirected to /dev/null while cases run) -------

static OUT_FD: std::sync::atomic::AtomicI32 = std::sync::atomic::AtomicI32::new(-1);

pub fn silence_stdout() {
    unsafe {
        let saved = libc::dup(1);
        let devnull = libc::open(c"/dev/null".as_ptr(), libc::O_WRONLY);
        if saved >= 0 && devnull >= 0 {
            libc::dup2(devnull, 1);
            libc::close(devnull);
            OUT_FD.store(saved, Ordering::SeqCst);
        }
    }
}
pub fn out(line: &str) {
    let fd = OUT_FD.load(Ordering::SeqCst);
    let s = format!("{line}\n");
    if fd >= 0 {
        unsafe {
            libc::write(fd, s.as_ptr() as *const libc::c_void, s.len());
        }
    } else {
        let _ = std::io::stdout().write_all(s.as_bytes());
        let _ = std::io::stdout().flush();
    }
}

/// Merge part reports into the evidence file and the process exit code.
pub fn finish(
    id: &str,
    opts: &Opts,
    parts: Vec<PartReport>,
    t0: Instant,
    assumptions: &[&str],
    extra: Value,
) -> i32 {
    let mut evaluations = 0;
    let mut nontrivial: HashSet<(usize, u64)> = HashSet::new();
    let mut samples = Vec::new();
    let mut labels = serde_json::Map::new();
    let mut counters = serde_json::Map::new();
    let mut discards = serde_json::Map::new();
    let mut known_hits: BTreeMap<String, u64> = BTreeMap::new();
    let mut panicked = 0;
    let mut rules = Vec::new();
    let mut violations = Vec::new();
    let mut infra = Vec::new();
    let mut parts_json = Vec::new();
    let mut exhaustive_parts = Vec::new();
    for (i, p) in parts.iter().enumerate() {
        evaluations += p.evaluations;
        for h in &p.nontrivial {
            nontrivial.insert((i, *h));
        }
        for s in &p.samples {
            samples.push(json!({"part": p.part, "case": s}));
        }
        labels.insert(p.part.clone(), json!(p.labels));
        if !p.counters.is_empty() {
            counters.insert(p.part.clone(), json!(p.counters));
        }
        if !p.discards.is_empty() {
            discards.insert(p.part.clone(), json!(p.discards));
        }
        for (k, v) in &p.known_hits {
            *known_hits.entry(k.clone()).or_insert(0) += v;
        }
        panicked += p.panicked_cases;
        rules.push(format!("[{}] {}", p.part, p.rule));
        violations.extend(p.violations.iter().cloned());
        infra.extend(p.infra_errors.iter().cloned());
        if p.exhaustive_enumeration {
            exhaustive_parts.push(p.part.clone());
        }
        parts_json.push(json!({
            "part": p.part,
            "evaluations": p.evaluations,
            "corpus": p.corpus,
            "enumerated": p.enumerated,
            "random": p.random,
            "distinct_nontrivial": p.nontrivial.len(),
            "enumeration_exhaustive_over_stated_lattice": p.exhaustive_enumeration,
        }));
    }
    for (sig, n) in &known_hits {
        let what = opts
            .is_known(id, sig)
            .map(|k| k.what.clone())
            .unwrap_or_default();
        out(&format!(
            "KNOWN-FINDING: property={id} {sig} ({n} cases this run): {what}"
        ));
    }
    for (p, sig, detail) in &violations {
        out(&format!("VIOLATION property={id} replay={p}"));
        out(&format!("  signature: {sig}"));
        let d: String = detail.chars().take(1500).collect();
        out(&format!("  detail: {d}"));
    }
    for e in infra.iter().take(10) {
        out(&format!("INFRA property={id}: {e}"));
    }
    let mut coverage = json!({
        "evaluations": evaluations,
        "distinct_nontrivial": nontrivial.len(),
        "rule": rules.join(" || "),
        "samples": samples,
        "labels": labels,
        "counters": counters,
        "discards": discards,
        "known_hits": known_hits,
        "panicked_cases": panicked,
        "parts": parts_json,
        "exhaustive": false,
        "exhaustive_parts": exhaustive_parts,
        "infra_errors": infra.len(),
    });
    if let (Value::Object(c), Value::Object(e)) = (&mut coverage, extra) {
        for (k, v) in e {
            c.insert(k, v);
        }
    }
    let ev = json!({
        "property_id": id,
        "tier": opts.tier.name(),
        "seed": opts.seed as i64,
        "level": "exploration",
        "coverage": coverage,
        "assumptions": assumptions,
        "wall_s": t0.elapsed().as_secs_f64(),
        "violations": violations.len(),
    });
    let dir = opts.verif_dir.join("evidence");
    let _ = std::fs::create_dir_all(&dir);
    let _ = std::fs::write(
        dir.join(format!("{id}.json")),
        serde_json::to_string_pretty(&ev).unwrap(),
    );
    out(&format!(
        "{id} {}: evaluations={} distinct_nontrivial={} known_hits={} violations={} wall={:.1}s",
        opts.tier.name(),
        evaluations,
        nontrivial.len(),
        known_hits.values().sum::<u64>(),
        violations.len(),
        t0.elapsed().as_secs_f64()
    ));
    if !violations.is_empty() {
        1
    } else if !infra.is_empty() {
        2
    } else {
        0
    }
}

// keep the strategy types referenced (silences unused-import lints on some toolchains)
#[allow(dead_code)]
fn _touch() {
    let mut r = TestRunner::deterministic();
    let _ = proptest::num::u64::ANY.new_tree(&mut r).map(|t| t.current());
}
