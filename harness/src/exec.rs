//! Planner cases (plain data) and their execution against the real planners.

use crate::flat::*;
use crate::world::World;
use crate::wrap::*;
use oxmpl::base::{
    error::PlanningError,
    planner::{Path, Planner, PlannerConfig},
    problem_definition::ProblemDefinition,
    space::StateSpace,
};
use oxmpl::geometric::{RRTConnect, RRTStar, PRM, RRT};
use serde::{Deserialize, Serialize};
use std::cell::RefCell;
use std::marker::PhantomData;
use std::panic::{catch_unwind, AssertUnwindSafe};
use std::rc::Rc;
use std::sync::Arc;
use std::time::{Duration, Instant};

#[derive(Clone, Copy, Debug, PartialEq, Eq, Hash, Serialize, Deserialize)]
pub enum PlannerTag {
    RRT,
    RRTConnect,
    RRTStar,
    PRM,
}
pub const ALL_PLANNERS: [PlannerTag; 4] = [
    PlannerTag::RRT,
    PlannerTag::RRTConnect,
    PlannerTag::RRTStar,
    PlannerTag::PRM,
];

#[derive(Clone, Debug, PartialEq, Serialize, Deserialize)]
pub struct Problem {
    /// start_states[0]
    pub start: Vec<f64>,
    pub goal: GoalCfg,
    /// further entries of start_states (the planners only ever use the first one)
    #[serde(default)]
    pub extra_starts: Vec<Vec<f64>>,
    /// this problem has an empty start list
    #[serde(default)]
    pub no_start: bool,
}

#[derive(Clone, Debug, PartialEq, Serialize, Deserialize)]
pub enum Op {
    /// `planner.setup(problem i, checker)`
    Setup(usize),
    /// `PRM::set_problem_definition(problem i)` (ignored by the other planners)
    SetProblem(usize),
    /// `PRM::construct_roadmap()` with a sample budget (ignored by the other planners)
    Construct { budget: u64 },
    /// `solve` with an iteration budget and an effectively infinite duration
    Solve { budget: u64 },
    /// `solve(Duration::from_micros(us))`, no budget (wall clock)
    SolveTimed { us: u64 },
    /// `PRM::construct_roadmap()` with `timeout = us` microseconds, no budget
    ConstructTimed { us: u64 },
    /// assignment to the planner's public parameter fields between calls (`max_distance`,
    /// `goal_bias`, `search_radius` / `connection_radius`), as a caller re-tuning a planner would
    SetParams {
        #[serde(with = "crate::xf::as_xf")]
        step: f64,
        #[serde(with = "crate::xf::as_xf")]
        goal_bias: f64,
        #[serde(with = "crate::xf::as_xf")]
        radius: f64,
    },
}

#[derive(Clone, Debug, PartialEq, Serialize, Deserialize)]
pub struct PlanCase {
    pub space: SpaceCfg,
    pub world: World,
    pub problems: Vec<Problem>,
    pub planner: PlannerTag,
    #[serde(with = "crate::xf::as_xf")]
    pub step: f64,
    #[serde(with = "crate::xf::as_xf")]
    pub goal_bias: f64,
    /// RRT*: search radius; PRM: connection radius
    #[serde(with = "crate::xf::as_xf")]
    pub radius: f64,
    pub seed: Option<u64>,
    pub script: Option<Vec<Vec<f64>>>,
    pub ops: Vec<Op>,
    pub space_fail_at: Option<usize>,
    pub goal_fail_at: Option<usize>,
    pub empty_starts: bool,
    pub query_cap: usize,
    /// if set, `setup(problem 1, ..)` installs a checker for this world instead of `world`
    /// (a re-setup with a different obstacle set)
    #[serde(default)]
    pub world2: Option<World>,
    /// if set, problem 1 lives in this space instead of `space`: same kind, layout and weights
    /// (hence the same metric and state encoding) with tighter bounds, built as its own space
    /// object - a planner object re-used for a query in another space
    #[serde(default)]
    pub space2: Option<SpaceCfg>,
    /// the sampler fault (`space_fail_at` / `goal_fail_at` = k) persists: every call from the
    /// k-th on fails, not just the k-th
    #[serde(default)]
    pub fault_persists: bool,
    /// plan on the library's own space object instead of the recording wrapper (see `Flavor`)
    #[serde(default)]
    pub raw_space: bool,
    /// PRM only: the construction time passed to `PRM::new` and in force during budgeted
    /// `Construct` ops (default: effectively unlimited). May be negative, zero, NaN or huge.
    #[serde(default, with = "crate::xf::as_opt_xf")]
    pub prm_timeout: Option<f64>,
}

impl PlanCase {
    /// the space configuration of problem i
    pub fn space_for(&self, problem: usize) -> &SpaceCfg {
        match (&self.space2, problem) {
            (Some(s), 1) => s,
            _ => &self.space,
        }
    }
    /// index of the world whose checker `setup(problem i)` installs
    pub fn world_index_for(&self, problem: usize) -> usize {
        if problem == 1 && self.world2.is_some() {
            1
        } else {
            0
        }
    }
    pub fn world_by_index(&self, wi: usize) -> &World {
        match (&self.world2, wi) {
            (Some(w), 1) => w,
            _ => &self.world,
        }
    }
}

#[derive(Clone, Debug, PartialEq)]
pub struct NodeF {
    pub s: Vec<f64>,
    pub parent: Option<usize>,
    pub cost: f64,
}
#[derive(Clone, Debug, PartialEq)]
pub enum Snap {
    None,
    Tree(Vec<NodeF>),
    Two(Vec<NodeF>, Vec<NodeF>),
    Roadmap(Vec<(Vec<f64>, Vec<usize>)>),
}
impl Snap {
    pub fn bits_eq(&self, o: &Snap) -> bool {
        fn t(a: &[NodeF], b: &[NodeF]) -> bool {
            a.len() == b.len()
                && a.iter().zip(b).all(|(x, y)| {
                    bits_eq(&x.s, &y.s)
                        && x.parent == y.parent
                        && x.cost.to_bits() == y.cost.to_bits()
                })
        }
        match (self, o) {
            (Snap::None, Snap::None) => true,
            (Snap::Tree(a), Snap::Tree(b)) => t(a, b),
            (Snap::Two(a, b), Snap::Two(c, d)) => t(a, c) && t(b, d),
            (Snap::Roadmap(a), Snap::Roadmap(b)) => {
                a.len() == b.len()
                    && a.iter()
                        .zip(b)
                        .all(|(x, y)| bits_eq(&x.0, &y.0) && x.1 == y.1)
            }
            _ => false,
        }
    }
    pub fn size(&self) -> usize {
        match self {
            Snap::None => 0,
            Snap::Tree(a) => a.len(),
            Snap::Two(a, b) => a.len() + b.len(),
            Snap::Roadmap(a) => a.len(),
        }
    }
}

#[derive(Clone, Debug, PartialEq)]
pub enum Res {
    /// call returned without a value (setup, set_problem) or Ok(()) (construct)
    Unit,
    Path(Vec<Vec<f64>>),
    Err(String),
    Panic { msg: String, loc: String },
    /// op not applicable to this planner (e.g. Construct on RRT) or not run after a panic
    Skipped,
}
impl Res {
    pub fn same(&self, o: &Res) -> bool {
        match (self, o) {
            (Res::Path(a), Res::Path(b)) => {
                a.len() == b.len() && a.iter().zip(b).all(|(x, y)| bits_eq(x, y))
            }
            (a, b) => a == b,
        }
    }
    pub fn tag(&self) -> String {
        match self {
            Res::Unit => "Unit".into(),
            Res::Path(_) => "Ok".into(),
            Res::Err(e) => e.clone(),
            Res::Panic { .. } => "Panic".into(),
            Res::Skipped => "Skipped".into(),
        }
    }
}

#[derive(Clone, Debug)]
pub struct Step {
    pub op: Op,
    pub res: Res,
    pub snap: Snap,
    /// ranges into the trace's logs covered by this step
    pub vlog: (usize, usize),
    pub samples: (usize, usize),
    pub goal_samples: (usize, usize),
    pub uniform_calls: (usize, usize),
    pub goal_calls: (usize, usize),
    /// range into `rec.call_times`: the sampler calls (uniform and goal) made by this step
    pub sampler_calls: (usize, usize),
    pub elapsed: Duration,
    pub ticks: u64,
    /// the validity-query cap fired during this step (the budget was zeroed mid-call, which also
    /// resets the tick counter: `ticks` is meaningless for this step)
    pub cap_fired: bool,
    /// (max_distance, goal_bias, search / connection radius) in effect during this step
    pub params: (f64, f64, f64),
}

#[derive(Clone, Debug)]
pub struct Trace {
    pub steps: Vec<Step>,
    pub rec: Rec,
    /// space.get_longest_valid_segment_length()
    pub lvs: f64,
}

/// How the space reaches the planner: through the recording / fault-injecting wrapper
/// (`Wrapped`, the default) or as the library's own space object (`Raw`). The wrapper can only
/// forward the trait methods that exist today; a planner that starts consulting a *new* method of
/// the space would get the trait's default from the wrapper, not the space's own override. Cases
/// with `raw_space` therefore plan on the real object (no sample log, no sampler faults).
pub trait Flavor<K: Kind> {
    type SP: StateSpace<StateType = K::S>;
    fn wrap(inner: K::SP, cfg: SpaceCfg, rec: RecRef) -> Self::SP;
}
pub struct Wrapped;
pub struct Raw;
impl<K: Kind> Flavor<K> for Wrapped {
    type SP = WSpace<K>;
    fn wrap(inner: K::SP, cfg: SpaceCfg, rec: RecRef) -> WSpace<K> {
        WSpace { inner, cfg, rec }
    }
}
impl<K: Kind> Flavor<K> for Raw {
    type SP = K::SP;
    fn wrap(inner: K::SP, _cfg: SpaceCfg, _rec: RecRef) -> K::SP {
        inner
    }
}

enum AnyPlanner<K: Kind, F: Flavor<K>> {
    Rrt(RRT<K::S, F::SP, WGoal<K>>),
    Con(RRTConnect<K::S, F::SP, WGoal<K>>),
    Star(RRTStar<K::S, F::SP, WGoal<K>>),
    Prm(PRM<K::S, F::SP, WGoal<K>>),
}

type PD<K, F> = ProblemDefinition<<K as Kind>::S, <F as Flavor<K>>::SP, WGoal<K>>;

fn err_name(e: &PlanningError) -> String {
    format!("{e:?}")
}
fn path_flat<K: Kind>(p: Path<K::S>) -> Vec<Vec<f64>> {
    p.0.iter().map(|s| K::enc(s)).collect()
}

impl<K: Kind, F: Flavor<K>> AnyPlanner<K, F> {
    fn new(case: &PlanCase) -> Self {
        let cfg = PlannerConfig { seed: case.seed };
        match case.planner {
            PlannerTag::RRT => AnyPlanner::Rrt(RRT::new(case.step, case.goal_bias, &cfg)),
            PlannerTag::RRTConnect => {
                AnyPlanner::Con(RRTConnect::new(case.step, case.goal_bias, &cfg))
            }
            PlannerTag::RRTStar => {
                AnyPlanner::Star(RRTStar::new(case.step, case.goal_bias, case.radius, &cfg))
            }
            PlannerTag::PRM => AnyPlanner::Prm(PRM::new(case.prm_timeout.unwrap_or(1.0e9), case.radius, &cfg)),
        }
    }
    fn setup(&mut self, pd: Arc<PD<K, F>>, vc: Arc<WChecker<K>>) {
        match self {
            AnyPlanner::Rrt(p) => p.setup(pd, vc),
            AnyPlanner::Con(p) => p.setup(pd, vc),
            AnyPlanner::Star(p) => p.setup(pd, vc),
            AnyPlanner::Prm(p) => p.setup(pd, vc),
        }
    }
    fn solve(&mut self, d: Duration) -> Result<Path<K::S>, PlanningError> {
        match self {
            AnyPlanner::Rrt(p) => p.solve(d),
            AnyPlanner::Con(p) => p.solve(d),
            AnyPlanner::Star(p) => p.solve(d),
            AnyPlanner::Prm(p) => p.solve(d),
        }
    }
    fn snap(&self) -> Snap {
        fn nodes<K: Kind>(v: Vec<(K::S, Option<usize>)>) -> Vec<NodeF> {
            v.into_iter()
                .map(|(s, p)| NodeF {
                    s: K::enc(&s),
                    parent: p,
                    cost: 0.0,
                })
                .collect()
        }
        match self {
            AnyPlanner::Rrt(p) => Snap::Tree(nodes::<K>(p.verif_tree())),
            AnyPlanner::Con(p) => {
                let (a, b) = p.verif_trees();
                Snap::Two(nodes::<K>(a), nodes::<K>(b))
            }
            AnyPlanner::Star(p) => Snap::Tree(
                p.verif_tree()
                    .into_iter()
                    .map(|(s, par, c)| NodeF {
                        s: K::enc(&s),
                        parent: par,
                        cost: c,
                    })
                    .collect(),
            ),
            AnyPlanner::Prm(p) => Snap::Roadmap(
                p.verif_roadmap()
                    .into_iter()
                    .map(|(s, e)| (K::enc(&s), e))
                    .collect(),
            ),
        }
    }
}

thread_local! {
    pub static LAST_PANIC: RefCell<Option<(String, String)>> = const { RefCell::new(None) };
    pub static IN_CASE: std::cell::Cell<bool> = const { std::cell::Cell::new(false) };
}

/// Installs a process-wide panic hook that records message and location into a thread-local while
/// a case is executing (and stays quiet), and behaves like the default hook otherwise.
pub fn install_panic_hook() {
    let default = std::panic::take_hook();
    std::panic::set_hook(Box::new(move |info| {
        let in_case = IN_CASE.with(|c| c.get());
        if in_case {
            let msg = if let Some(s) = info.payload().downcast_ref::<&str>() {
                s.to_string()
            } else if let Some(s) = info.payload().downcast_ref::<String>() {
                s.clone()
            } else {
                "<non-string panic>".to_string()
            };
            let loc = info
                .location()
                .map(|l| format!("{}:{}", l.file(), l.line()))
                .unwrap_or_default();
            LAST_PANIC.with(|p| *p.borrow_mut() = Some((msg, loc)));
        } else {
            default(info);
        }
    }));
}

/// Runs `f` under catch_unwind with panic recording.
pub fn guarded<T>(f: impl FnOnce() -> T) -> Result<T, (String, String)> {
    let prev = IN_CASE.with(|c| c.replace(true));
    LAST_PANIC.with(|p| *p.borrow_mut() = None);
    let r = catch_unwind(AssertUnwindSafe(f));
    IN_CASE.with(|c| c.set(prev));
    match r {
        Ok(v) => Ok(v),
        Err(_) => Err(LAST_PANIC
            .with(|p| p.borrow_mut().take())
            .unwrap_or(("<unknown>".into(), String::new()))),
    }
}

pub struct Built<K: Kind, F: Flavor<K>> {
    pub space: K::SP,
    pub rec: RecRef,
    pub pds: Vec<Arc<PD<K, F>>>,
    /// one checker per world (index 0 = `world`, 1 = `world2`)
    pub checkers: Vec<Arc<WChecker<K>>>,
}

pub fn build_case<K: Kind, F: Flavor<K>>(case: &PlanCase) -> Result<Built<K, F>, String> {
    let space = K::build(&case.space)?;
    let rec: RecRef = Rc::new(RefCell::new(Rec {
        script: case.script.clone(),
        space_fail_at: case.space_fail_at,
        goal_fail_at: case.goal_fail_at,
        fault_persists: case.fault_persists,
        query_cap: case.query_cap,
        ..Default::default()
    }));
    // one space object shared by all problem definitions of the case, as a caller re-using a
    // space for several queries would do
    #[allow(clippy::arc_with_non_send_sync)]
    let shared_space = Arc::new(F::wrap(space.clone(), case.space.clone(), rec.clone()));
    let second_space = match &case.space2 {
        Some(cfg2) => {
            let sp2 = K::build(cfg2)?;
            #[allow(clippy::arc_with_non_send_sync)]
            let w = Arc::new(F::wrap(sp2.clone(), cfg2.clone(), rec.clone()));
            Some((sp2, w))
        }
        None => None,
    };
    let mut pds = Vec::new();
    for (pi, p) in case.problems.iter().enumerate() {
        if p.start.len() != case.space.width() {
            return Err("start width".into());
        }
        let (p_cfg, p_inner, p_shared) = match (&second_space, pi) {
            (Some((sp2, w)), 1) => (case.space_for(1), sp2.clone(), w.clone()),
            _ => (&case.space, space.clone(), shared_space.clone()),
        };
        let goal = WGoal::<K>::new(&p.goal, p_cfg, p_inner, rec.clone());
        let starts = if case.empty_starts || p.no_start {
            vec![]
        } else {
            let mut v = vec![K::dec(&case.space, &p.start)];
            for e in &p.extra_starts {
                if e.len() == case.space.width() {
                    v.push(K::dec(&case.space, e));
                }
            }
            v
        };
        #[allow(clippy::arc_with_non_send_sync)]
        pds.push(Arc::new(ProblemDefinition {
            space: p_shared,
            start_states: starts,
            goal: Arc::new(goal),
        }));
    }
    let mut checkers = Vec::new();
    for w in std::iter::once(&case.world).chain(case.world2.iter()) {
        #[allow(clippy::arc_with_non_send_sync)]
        checkers.push(Arc::new(WChecker::<K> {
            world: w.clone(),
            cfg: case.space.clone(),
            rec: rec.clone(),
            space: space.clone(),
            sballs: w
                .sballs
                .iter()
                .map(|(c, r)| (K::dec(&case.space, c), *r))
                .collect(),
            _k: PhantomData,
        }));
    }
    Ok(Built {
        space,
        rec,
        pds,
        checkers,
    })
}

const FOREVER: Duration = Duration::from_secs(1_000_000_000);

pub fn run_case<K: Kind>(case: &PlanCase) -> Result<Trace, String> {
    if case.raw_space {
        run_case_f::<K, Raw>(case)
    } else {
        run_case_f::<K, Wrapped>(case)
    }
}

fn run_case_f<K: Kind, F: Flavor<K>>(case: &PlanCase) -> Result<Trace, String> {
    let b = build_case::<K, F>(case)?;
    let lvs = b.space.get_longest_valid_segment_length();
    let mut planner = AnyPlanner::<K, F>::new(case);
    let mut steps = Vec::new();
    let mut dead = false;
    let mut params = (case.step, case.goal_bias, case.radius);
    for op in &case.ops {
        if let Op::SetParams { step, goal_bias, radius } = op {
            params = (*step, *goal_bias, *radius);
        }
        let cap_before = b.rec.borrow().cap_hit;
        let (v0, s0, g0, u0, gc0) = {
            let r = b.rec.borrow();
            (
                r.vlog.len(),
                r.samples.len(),
                r.goal_samples.len(),
                r.n_uniform_calls,
                r.n_goal_calls,
            )
        };
        let t0 = Instant::now();
        let mut ticks = 0;
        let res = if dead {
            Res::Skipped
        } else {
            let out = guarded(|| match op {
                Op::Setup(i) => {
                    let pi = *i % b.pds.len();
                    planner.setup(
                        b.pds[pi].clone(),
                        b.checkers[case.world_index_for(pi)].clone(),
                    );
                    Res::Unit
                }
                Op::SetProblem(i) => {
                    if let AnyPlanner::Prm(p) = &mut planner {
                        p.set_problem_definition(b.pds[*i % b.pds.len()].clone());
                        Res::Unit
                    } else {
                        Res::Skipped
                    }
                }
                Op::Construct { budget } => {
                    if let AnyPlanner::Prm(p) = &mut planner {
                        p.timeout = case.prm_timeout.unwrap_or(1.0e9);
                        oxmpl::verif::set_budget(Some(*budget));
                        let r = p.construct_roadmap();
                        ticks = oxmpl::verif::ticks_used();
                        oxmpl::verif::set_budget(None);
                        match r {
                            Ok(()) => Res::Unit,
                            Err(e) => Res::Err(err_name(&e)),
                        }
                    } else {
                        Res::Skipped
                    }
                }
                Op::ConstructTimed { us } => {
                    if let AnyPlanner::Prm(p) = &mut planner {
                        p.timeout = *us as f64 * 1e-6;
                        oxmpl::verif::set_budget(None);
                        let r = p.construct_roadmap();
                        ticks = oxmpl::verif::ticks_used();
                        match r {
                            Ok(()) => Res::Unit,
                            Err(e) => Res::Err(err_name(&e)),
                        }
                    } else {
                        Res::Skipped
                    }
                }
                Op::Solve { budget } => {
                    oxmpl::verif::set_budget(Some(*budget));
                    let r = planner.solve(FOREVER);
                    ticks = oxmpl::verif::ticks_used();
                    oxmpl::verif::set_budget(None);
                    match r {
                        Ok(p) => Res::Path(path_flat::<K>(p)),
                        Err(e) => Res::Err(err_name(&e)),
                    }
                }
                Op::SolveTimed { us } => {
                    oxmpl::verif::set_budget(None);
                    let r = planner.solve(Duration::from_micros(*us));
                    // iterations (PRM: none) started by this call: the hook counts them even
                    // when no budget is armed
                    ticks = oxmpl::verif::ticks_used();
                    match r {
                        Ok(p) => Res::Path(path_flat::<K>(p)),
                        Err(e) => Res::Err(err_name(&e)),
                    }
                }
                Op::SetParams { step, goal_bias, radius } => {
                    match &mut planner {
                        AnyPlanner::Rrt(p) => {
                            p.max_distance = *step;
                            p.goal_bias = *goal_bias;
                        }
                        AnyPlanner::Con(p) => {
                            p.max_distance = *step;
                            p.goal_bias = *goal_bias;
                        }
                        AnyPlanner::Star(p) => {
                            p.max_distance = *step;
                            p.goal_bias = *goal_bias;
                            p.search_radius = *radius;
                        }
                        AnyPlanner::Prm(p) => p.connection_radius = *radius,
                    }
                    Res::Unit
                }
            });
            oxmpl::verif::set_budget(None);
            match out {
                Ok(r) => r,
                Err((msg, loc)) => {
                    dead = true;
                    Res::Panic { msg, loc }
                }
            }
        };
        let elapsed = t0.elapsed();
        let snap = match guarded(|| planner.snap()) {
            Ok(s) => s,
            Err(_) => Snap::None,
        };
        let r = b.rec.borrow();
        steps.push(Step {
            op: op.clone(),
            res,
            snap,
            vlog: (v0, r.vlog.len()),
            samples: (s0, r.samples.len()),
            goal_samples: (g0, r.goal_samples.len()),
            uniform_calls: (u0, r.n_uniform_calls),
            goal_calls: (gc0, r.n_goal_calls),
            sampler_calls: (u0 + gc0, r.call_times.len()),
            elapsed,
            ticks,
            cap_fired: r.cap_hit && !cap_before,
            params,
        });
    }
    let rec = b.rec.borrow().clone();
    Ok(Trace { steps, rec, lvs })
}

pub fn run_case_dyn(case: &PlanCase) -> Result<Trace, String> {
    crate::with_kind!(case.space.kind, run_case, case)
}
