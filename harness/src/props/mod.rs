pub mod c09;
pub mod lattice;

use crate::runner::*;
use serde_json::Value;
use std::time::Instant;

/// Runs the check for one property id; returns the process exit code.
pub fn run_property(id: &str, opts: &Opts) -> i32 {
    let t0 = Instant::now();
    match id {
        "C09" => {
            let parts = vec![run_part::<c09::C09>(opts)];
            finish(id, opts, parts, t0, &["RV magnitudes <= 1e150 (naive norm overflows above; treated as domain limit)", "tolerances as in DESIGN.md section 4"], Value::Null)
        }
        _ => {
            out(&format!("unknown property {id}"));
            2
        }
    }
}

pub fn replay(opts: &Opts, doc: &Value) -> i32 {
    let mut res: Option<Vec<(String, String)>> = None;
    macro_rules! try_part {
        ($p:ty) => {
            if res.is_none() {
                res = replay_part::<$p>(opts, doc);
            }
        };
    }
    try_part!(c09::C09);
    match res {
        None => {
            out("replay: no part accepts this file");
            2
        }
        Some(v) if v.is_empty() => {
            out("replay: no violation");
            0
        }
        Some(v) => {
            for (sig, detail) in v {
                out(&format!(
                    "VIOLATION property={} replay=<input>",
                    doc["property"].as_str().unwrap_or("?")
                ));
                out(&format!("  signature: {sig}"));
                out(&format!("  detail: {detail}"));
            }
            1
        }
    }
}
