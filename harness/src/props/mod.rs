pub mod c06;
pub mod c07;
pub mod c08;
pub mod c09;
pub mod c10;
pub mod c11;
pub mod c12;
pub mod c13;
pub mod c14;
pub mod c15;
pub mod c18;
pub mod explore;
pub mod trees;
pub mod lattice;
pub mod paths;
pub mod plan;

use crate::runner::*;
use serde_json::Value;

fn trees_len_k<K: crate::flat::Kind>(case: &crate::exec::PlanCase, a: &[f64], b: &[f64]) -> f64 {
    plan::KSpace::<K>::new(&case.space).map(|k| k.d(a, b)).unwrap_or(f64::NAN)
}
/// distance between two flat states in the case's real space
pub fn trees_len(case: &crate::exec::PlanCase, a: &[f64], b: &[f64]) -> f64 {
    crate::with_kind!(case.space.kind, trees_len_k, case, a, b)
}
use std::time::Instant;

const A_PLAN: &[&str] = &[
    "worlds are pure functions of the state evaluated by the harness (harness/src/world.rs); goals are metric balls around targets using the space's own distance",
    "iteration budgets (cargo feature `verif`) replace wall-clock limits; the budget hook only counts loop iterations",
    "tolerances as in DESIGN.md section 4",
];

/// Runs the check for one property id; returns the process exit code.
pub fn run_property(id: &str, opts: &Opts) -> i32 {
    let t0 = Instant::now();
    let (parts, assumptions, extra): (Vec<PartReport>, &[&str], Value) = match id {
        "C01" => (vec![run_part::<paths::C01>(opts)], A_PLAN, Value::Null),
        "C02" => (vec![run_part::<paths::C02>(opts)], A_PLAN, Value::Null),
        "C03" => (vec![run_part::<paths::C03>(opts), run_part::<paths::C03Star>(opts)], A_PLAN, Value::Null),
        "C04" => (vec![run_part::<paths::C04>(opts)], A_PLAN, Value::Null),
        "C05" => (vec![run_part::<paths::C05>(opts)], A_PLAN, Value::Null),
        "C10" => (
            vec![run_part::<c10::C10>(opts)],
            &[
                "unit quaternions only (the statement says 'for unit inputs'); RV magnitudes <= 1e150",
                "where two shortest paths exist (antipodal angles / rotations at distance pi within 1e-9 / 1e-6) either is accepted and the reversal / reference comparisons are skipped",
                "tolerances as in DESIGN.md section 4, widened by 16 ulp of the input magnitude for non-canonical angles",
            ],
            Value::Null,
        ),
        "C11" => (
            vec![run_part::<c11::C11>(opts)],
            &[
                "sampling is not exercised for SO3 cones with 1e-9 <= radius < 0.05 (rejection sampler needs > 1e5 draws; liveness is outside this technique's reach)",
                "idempotence and 'leaves satisfying states unchanged' are judged to 4 ulp per component (re-normalising a unit quaternion may move the last bit)",
                "which admissible point enforce_bounds picks for an outside state is not judged",
            ],
            Value::Null,
        ),
        "C12" => (
            vec![run_part::<c12::C12>(opts)],
            &[
                "finite angles only for the state constructors (the statement says 'all finite angles'); congruence is judged through sin/cos to 1e-15 (1+|v|) and only for |v| <= 1e12",
                "SO3 centres are unit quaternions (plus one NaN centre); samplers are not run on cones with 1e-9 <= radius < 0.05",
                "inputs partly outside [-pi, pi] may be accepted (clamped) or rejected; only the stored bounds are judged",
            ],
            Value::Null,
        ),
        "C13" => (
            vec![run_part::<c13::C13>(opts)],
            &[
                "component operations themselves are trusted here (they are the subject of C09-C12); this check decides only the composition law and the dispatch",
                "a case in which a component operation panics is discarded and counted (panicked_cases)",
            ],
            Value::Null,
        ),
        "C06" => (
            vec![run_part::<c06::C06>(opts)],
            &[
                "wall-clock oracle: a deadline honoured late by less than the 1 s allowance is invisible; an overshoot counts only if it repeats in three more runs of the same case",
                "'never blocks indefinitely' is decided as 'returned within a 20 s watchdog' on cases whose time limit is <= 100 ms",
                "infeasibility is by construction (closed shell of thickness >= 1.05 L in the reference metric, or goal region covered by an obstacle)",
            ],
            Value::Null,
        ),
        "C07" => (
            vec![run_part::<c07::C07>(opts), run_part::<c07::C07Prefix>(opts), run_part::<c07::C07Timed>(opts)],
            A_PLAN,
            Value::Null,
        ),
        "C08" => (
            vec![run_part::<c08::C08>(opts), run_part::<c08::C08WellFormed>(opts)],
            A_PLAN,
            Value::Null,
        ),
        "C14" => (
            vec![run_part::<c14::C14>(opts)],
            &[
                "statistical: every individual test is judged at alpha = 1e-9 and must fail again on a second independent seed, so a false alarm is practically impossible; biases below about 1% (at N = 2e5) are invisible",
                "SO3 cones of radius < 0.3 are not sampled (cost of the rejection sampler)",
                "asymptotic Kolmogorov / chi-square tail formulas",
            ],
            Value::Null,
        ),
        "C15" => (
            vec![run_part::<c15::C15Explore>(opts), run_part::<c15::C15Random>(opts), run_part::<c15::C15Chunked>(opts), run_part::<c15::C15ReSetup>(opts)],
            A_PLAN,
            Value::Null,
        ),
        "C16" => (
            vec![run_part::<c15::C16Explore>(opts), run_part::<c15::C16Random>(opts), run_part::<c15::C16Chunk>(opts), run_part::<c15::C16GoalBias>(opts)],
            A_PLAN,
            Value::Null,
        ),
        "C17" => (
            vec![run_part::<c15::C17Explore>(opts), run_part::<c15::C17Random>(opts), run_part::<c15::C17VsRrt>(opts)],
            A_PLAN,
            Value::Null,
        ),
        "C18" => (
            vec![run_part::<c18::C18Scripted>(opts), run_part::<c18::C18Random>(opts)],
            A_PLAN,
            Value::Null,
        ),
        "C09" => (
            vec![run_part::<c09::C09>(opts)],
            &[
                "RV magnitudes <= 1e150 (naive norm overflows above) and an absolute floor of 2e-154 per RV coordinate (squares underflow below): treated as the documented domain, not as findings",
                "tolerances as in DESIGN.md section 4",
            ],
            Value::Null,
        ),
        _ => {
            out(&format!("unknown property {id}"));
            return 2;
        }
    };
    finish(id, opts, parts, t0, assumptions, extra)
}

pub fn replay(opts: &Opts, doc: &Value) -> i32 {
    let mut res: Option<Vec<(String, String)>> = None;
    macro_rules! try_part {
        ($p:ty) => {
            if res.is_none() {
                res = replay_part::<$p>(opts, doc);
            }
        };
    }
    try_part!(paths::C01);
    try_part!(paths::C02);
    try_part!(paths::C03);
    try_part!(paths::C03Star);
    try_part!(paths::C04);
    try_part!(paths::C05);
    try_part!(c06::C06);
    try_part!(c07::C07);
    try_part!(c07::C07Prefix);
    try_part!(c07::C07Timed);
    try_part!(c08::C08);
    try_part!(c08::C08WellFormed);
    try_part!(c09::C09);
    try_part!(c10::C10);
    try_part!(c11::C11);
    try_part!(c12::C12);
    try_part!(c13::C13);
    try_part!(c14::C14);
    try_part!(c18::C18Scripted);
    try_part!(c18::C18Random);
    try_part!(c15::C15Explore);
    try_part!(c15::C15Random);
    try_part!(c15::C15Chunked);
    try_part!(c15::C15ReSetup);
    try_part!(c15::C16Explore);
    try_part!(c15::C16Random);
    try_part!(c15::C16Chunk);
    try_part!(c15::C16GoalBias);
    try_part!(c15::C17Explore);
    try_part!(c15::C17Random);
    try_part!(c15::C17VsRrt);
    match res {
        None => {
            out("replay: no part accepts this file");
            2
        }
        Some(v) if v.is_empty() => {
            out("replay: no violation");
            0
        }
        Some(v) => {
            for (sig, detail) in v {
                out(&format!(
                    "VIOLATION property={} replay=<input>",
                    doc["property"].as_str().unwrap_or("?")
                ));
                out(&format!("  signature: {sig}"));
                out(&format!("  detail: {detail}"));
            }
            1
        }
    }
}
