//! C07 — seeded planning is reproducible.

use super::paths::{common_labels, planner_name};
use super::plan::*;
use crate::choice::Ch;
use crate::exec::*;
use crate::flat::bits_eq;
use crate::runner::*;

fn node_states(s: &Snap) -> Vec<Vec<&Vec<f64>>> {
    match s {
        Snap::None => vec![],
        Snap::Tree(t) => vec![t.iter().map(|n| &n.s).collect()],
        Snap::Two(a, b) => vec![
            a.iter().map(|n| &n.s).collect(),
            b.iter().map(|n| &n.s).collect(),
        ],
        Snap::Roadmap(r) => vec![r.iter().map(|n| &n.0).collect()],
    }
}
/// Is one node sequence a prefix of the other (per tree)?
fn prefix_related(a: &Snap, b: &Snap) -> bool {
    let (x, y) = (node_states(a), node_states(b));
    if x.len() != y.len() {
        return false;
    }
    x.iter().zip(&y).all(|(p, q)| {
        let n = p.len().min(q.len());
        p[..n].iter().zip(&q[..n]).all(|(u, v)| bits_eq(u, v))
    })
}

fn describe(r: &Res) -> String {
    match r {
        Res::Path(p) => format!("Ok(path of {} states, last {:?})", p.len(), p.last()),
        other => format!("{other:?}"),
    }
}

pub fn c07_oracle(case: &PlanCase, ctx: &mut Ctx) {
    let pname = planner_name(case.planner);
    let (t1, t2) = match (run_case_dyn(case), run_case_dyn(case)) {
        (Ok(a), Ok(b)) => (a, b),
        _ => {
            ctx.discard("unbuildable");
            return;
        }
    };
    common_labels(case, &t1, ctx);
    let rng_goal = case.problems.iter().any(|p| p.goal.rng_sampler);
    let mut n_solves = 0;
    let mut n_setups = 0;
    let mut max_nodes = 0;
    for (i, (a, b)) in t1.steps.iter().zip(&t2.steps).enumerate() {
        if matches!(a.res, Res::Panic { .. }) || matches!(b.res, Res::Panic { .. }) {
            ctx.panicked = true;
            break;
        }
        match a.op {
            Op::Solve { .. } => n_solves += 1,
            Op::Setup(_) => n_setups += 1,
            _ => {}
        }
        max_nodes = max_nodes.max(a.snap.size());
        // classify what kind of step diverged, for signatures
        let class = match a.op {
            Op::Setup(_) => "after-setup",
            Op::Solve { .. } if n_solves >= 2 => "second-or-later-solve",
            Op::Solve { .. } => "first-solve",
            Op::Construct { .. } if n_setups >= 2 => "construct-after-re-setup",
            Op::Construct { .. } => "first-construct",
            _ => "other",
        };
        if !a.res.same(&b.res) {
            ctx.fail(
                format!("C07:result-differs:{pname}:{class}"),
                format!(
                    "step {i} ({:?}): instance 1 returned {}, instance 2 returned {}",
                    a.op,
                    describe(&a.res),
                    describe(&b.res)
                ),
            );
            break;
        }
        if !a.snap.bits_eq(&b.snap) {
            ctx.fail(
                format!("C07:snapshot-differs:{pname}:{class}"),
                format!(
                    "step {i} ({:?}): the two identically driven instances hold different trees/roadmaps ({} vs {} nodes)",
                    a.op,
                    a.snap.size(),
                    b.snap.size()
                ),
            );
            break;
        }
    }
    if (n_solves >= 2 || n_setups >= 2 || (rng_goal && case.planner == PlannerTag::RRTConnect))
        && max_nodes >= 10
    {
        ctx.nontrivial = true;
    }
    if rng_goal {
        ctx.label("rng-consuming-goal");
    }
    if n_solves >= 2 {
        ctx.label("repeated-solve");
    }
    if n_setups >= 2 {
        ctx.label("re-setup");
    }
}

pub struct C07;
impl Prop for C07 {
    type Case = PlanCase;
    const ID: &'static str = "C07";
    const PART: &'static str = "two-instances";
    const RULE: &'static str = "proptest choice sequences -> planner cases with call histories (setup, solve(budget), repeated solve, re-setup with another problem, PRM construct_roadmap / set_problem_definition, occasionally solve before setup), 50% goals whose sampler consumes the passed generator. Two planner instances are built from the same case in one process and driven through the same history; after every step results (error variant or path, bit for bit) and tree/roadmap snapshots (states, parents, costs, adjacency) must be identical. Non-trivial = history with >= 2 solves or a re-setup, or RRT-Connect with an RNG-consuming goal, reaching >= 10 nodes.";
    fn random_cases(tier: Tier) -> usize {
        tier.pick(8_000, 60_000)
    }
    fn gen(ch: &mut Ch, _tier: Tier) -> PlanCase {
        let prof = Profile {
            histories: true,
            rng_goal: 0.5,
            max_obst: 3,
            budget_scale: 0.4,
            // error paths matter here: a call that returns early (invalid start, no valid goal
            // root) must leave the generator in the same state in both instances
            p_goal_blocked: 0.15,
            p_marginal_start: 0.1,
            ..Default::default()
        };
        gen_plan_case(ch, &prof)
    }
    fn check(case: &PlanCase, ctx: &mut Ctx) {
        c07_oracle(case, ctx);
    }
}

/// Metamorphic part: wall-clock time / iteration count only decides *how many* iterations run.
pub struct C07Prefix;
impl Prop for C07Prefix {
    type Case = PlanCase;
    const ID: &'static str = "C07";
    const PART: &'static str = "prefix";
    const RULE: &'static str = "same seed and problem run (a) with iteration budget N, (b) with budget N+k, (c) under a real 0.2-3 ms wall-clock timeout without budget: the node sequences (per tree; PRM: milestones) of any two of the three runs must be prefix-related. Non-trivial = the shorter run has >= 5 nodes and the longer one strictly more.";
    fn random_cases(tier: Tier) -> usize {
        tier.pick(3_000, 30_000)
    }
    fn gen(ch: &mut Ch, _tier: Tier) -> PlanCase {
        let prof = Profile {
            rng_goal: 0.5,
            max_obst: 3,
            budget_scale: 0.3,
            ..Default::default()
        };
        let mut c = gen_plan_case(ch, &prof);
        // make success rare so that runs are cut by budget/time: tiny goal
        if ch.prob(0.7) {
            c.problems[0].goal.radius *= 0.05;
        }
        c
    }
    fn check(case: &PlanCase, ctx: &mut Ctx) {
        let pname = planner_name(case.planner);
        let is_prm = case.planner == PlannerTag::PRM;
        let budget = case
            .ops
            .iter()
            .find_map(|o| match o {
                Op::Solve { budget } => Some(*budget),
                _ => None,
            })
            .unwrap_or(100);
        let mk = |ops: Vec<Op>| {
            let mut c = case.clone();
            c.ops = ops;
            c.query_cap = usize::MAX;
            c
        };
        let (a, b, c) = if is_prm {
            (
                mk(vec![Op::Setup(0), Op::Construct { budget }]),
                mk(vec![Op::Setup(0), Op::Construct { budget: budget + 37 }]),
                mk(vec![Op::Setup(0), Op::ConstructTimed { us: 200 + budget % 1500 }]),
            )
        } else {
            (
                mk(vec![Op::Setup(0), Op::Solve { budget }]),
                mk(vec![Op::Setup(0), Op::Solve { budget: budget + 37 }]),
                mk(vec![Op::Setup(0), Op::SolveTimed { us: 200 + budget % 2800 }]),
            )
        };
        let (ta, tb, tc) = match (run_case_dyn(&a), run_case_dyn(&b), run_case_dyn(&c)) {
            (Ok(x), Ok(y), Ok(z)) => (x, y, z),
            _ => {
                ctx.discard("unbuildable");
                return;
            }
        };
        common_labels(case, &ta, ctx);
        let last = |t: &Trace| t.steps.last().map(|s| s.snap.clone()).unwrap_or(Snap::None);
        if [&ta, &tb, &tc]
            .iter()
            .any(|t| t.steps.iter().any(|s| matches!(s.res, Res::Panic { .. })))
        {
            ctx.panicked = true;
            return;
        }
        let (sa, sb, sc) = (last(&ta), last(&tb), last(&tc));
        for (x, y, what) in [
            (&sa, &sb, "budget-N-vs-N+k"),
            (&sa, &sc, "budget-vs-wall-clock"),
            (&sb, &sc, "budget-vs-wall-clock"),
        ] {
            if !prefix_related(x, y) {
                ctx.fail(
                    format!("C07:not-prefix-related:{pname}:{what}"),
                    format!(
                        "{what}: node sequences of the two runs ({} and {} nodes) diverge although seed and problem are the same",
                        x.size(),
                        y.size()
                    ),
                );
                return;
            }
        }
        let sizes = [sa.size(), sb.size(), sc.size()];
        let mn = *sizes.iter().min().unwrap();
        let mx = *sizes.iter().max().unwrap();
        ctx.nontrivial = mn >= 5 && mx > mn;
        if sc.size() != sa.size() {
            ctx.label("wall-clock-cut-differs");
        }
    }
}

/// Metamorphic part: a call cut by the clock is indistinguishable from a call cut by an iteration
/// count. "Wall-clock time may only affect how many iterations complete, never which decisions
/// are taken."
pub struct C07Timed;
impl Prop for C07Timed {
    type Case = PlanCase;
    const ID: &'static str = "C07";
    const PART: &'static str = "timed-equals-budget";
    const RULE: &'static str = "run X: setup, solve under a real 0.1-3 ms wall-clock timeout (PRM: construct_roadmap with that build time), then solve(budget m) on the same instance; the hook reports how many iterations k the timed call started. Run Y: the same with the timed call replaced by solve(budget k) (construct_roadmap(budget k)). Results and tree / roadmap snapshots (states, parents, costs, adjacency) of X and Y must be identical bit for bit after both calls. PRM: one more query on the finished roadmap under a 0-50 us deadline must return the untimed answer or Err(Timeout). A fifth of the timed calls get a deadline of 0-20 us. Non-trivial = the timed call ended by timeout after >= 5 iterations.";
    fn random_cases(tier: Tier) -> usize {
        tier.pick(4_000, 30_000)
    }
    fn gen(ch: &mut Ch, _tier: Tier) -> PlanCase {
        let prof = Profile {
            rng_goal: 0.5,
            max_obst: 3,
            budget_scale: 0.3,
            big_radius: true,
            // goal regions whose first target is invalid: RRT-Connect re-draws its goal root
            // inside the timed call
            p_goal_blocked: 0.25,
            ..Default::default()
        };
        let mut c = gen_plan_case(ch, &prof);
        if ch.prob(0.7) {
            c.problems[0].goal.radius *= 0.05;
        }
        // mostly 0.1-3 ms; a fifth of the time a deadline that has passed before the first
        // iteration (0-20 us), which is where set-up work done under the clock shows
        let us = if ch.prob(0.2) { ch.pick(&[0u64, 1, 5, 20]) } else { ch.int(100, 3000) as u64 };
        let m = ch.int(5, 200) as u64;
        c.ops = if c.planner == PlannerTag::PRM {
            // (the last op: a query under a real deadline of 0-50 us on the finished roadmap)
            vec![Op::Setup(0), Op::ConstructTimed { us }, Op::Solve { budget: m }, Op::SolveTimed { us: ch.pick(&[0u64, 1, 5, 20, 50]) }]
        } else {
            vec![Op::Setup(0), Op::SolveTimed { us }, Op::Solve { budget: m }]
        };
        c.query_cap = usize::MAX;
        c
    }
    fn check(case: &PlanCase, ctx: &mut Ctx) {
        let pname = planner_name(case.planner);
        let Ok(tx) = run_case_dyn(case) else {
            ctx.discard("unbuildable");
            return;
        };
        common_labels(case, &tx, ctx);
        if tx.steps.iter().any(|s| matches!(s.res, Res::Panic { .. })) {
            ctx.panicked = true;
            return;
        }
        let k = tx.steps[1].ticks;
        let mut y = case.clone();
        y.ops[1] = if case.planner == PlannerTag::PRM {
            Op::Construct { budget: k }
        } else {
            Op::Solve { budget: k }
        };
        let Ok(ty) = run_case_dyn(&y) else {
            ctx.discard("unbuildable");
            return;
        };
        if ty.steps.iter().any(|s| matches!(s.res, Res::Panic { .. })) {
            ctx.panicked = true;
            return;
        }
        for (i, (a, b)) in tx.steps.iter().zip(&ty.steps).enumerate() {
            if i == 3 {
                // PRM query under a deadline on a finished roadmap: the clock may turn the answer
                // into Err(Timeout), nothing else (the untimed answer is that of step 2)
                for t in [a, b] {
                    let timed_out = matches!(&t.res, Res::Err(e) if e == "Timeout");
                    if !timed_out && !t.res.same(&tx.steps[2].res) {
                        ctx.fail(
                            format!("C07:timed-query-differs:{pname}"),
                            format!("the same query on the same roadmap returned {} without a deadline and {} under a deadline of {:?}", describe(&tx.steps[2].res), describe(&t.res), t.op),
                        );
                        return;
                    }
                    if timed_out {
                        ctx.label("prm-timed-query:Timeout");
                    }
                }
                continue;
            }
            let what = match i {
                1 => "timed-call",
                2 => "call-after-timed-call",
                _ => "setup",
            };
            if !a.res.same(&b.res) {
                ctx.fail(
                    format!("C07:timed-differs-from-budget:{pname}:{what}:result"),
                    format!(
                        "the timed call started {k} iterations; step {i}: after the timed run {}, after the run cut at {k} iterations {}",
                        describe(&a.res),
                        describe(&b.res)
                    ),
                );
                return;
            }
            if !a.snap.bits_eq(&b.snap) {
                ctx.fail(
                    format!("C07:timed-differs-from-budget:{pname}:{what}:snapshot"),
                    format!(
                        "the timed call started {k} iterations; step {i}: tree / roadmap after the timed run ({} nodes) differs from the one after the run cut at {k} iterations ({} nodes)",
                        a.snap.size(),
                        b.snap.size()
                    ),
                );
                return;
            }
        }
        let timed_out = matches!(&tx.steps[1].res, Res::Err(e) if e == "Timeout") || (case.planner == PlannerTag::PRM);
        ctx.label(format!("timed-call:{}", tx.steps[1].res.tag()));
        ctx.nontrivial = timed_out && k >= 5;
    }
}
