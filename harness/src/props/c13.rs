//! C13 — compound spaces compose their components by the documented law; SE2/SE3 are the
//! compound of their translation and rotation spaces with weights (1, w).

use super::c09::gen_any_state;
use crate::choice::Ch;
use crate::exec::guarded;
use crate::flat::*;
use crate::gen::*;
use crate::runner::*;
use oxmpl::base::space::StateSpace;
use oxmpl::base::state::SE2State;
use rand::{rngs::StdRng, SeedableRng};
use serde::{Deserialize, Serialize};

#[derive(Clone, Debug, Serialize, Deserialize)]
pub struct CompCase {
    pub space: SpaceCfg,
    pub a: Vec<f64>,
    pub b: Vec<f64>,
    pub t: f64,
    pub seed: u64,
}

enum AnyComp {
    RV(oxmpl::base::space::RealVectorStateSpace),
    SO2(oxmpl::base::space::SO2StateSpace),
    SO3(oxmpl::base::space::SO3StateSpace),
}

fn build_comps(cfg: &SpaceCfg) -> Result<Vec<AnyComp>, String> {
    let mut v = Vec::new();
    for (c, f) in cfg.comps.iter().zip(&cfg.fracs) {
        v.push(match c {
            Comp::RV { .. } => AnyComp::RV(build_rv(c, *f)?),
            Comp::SO2 { .. } => AnyComp::SO2(build_so2(c, *f)?),
            Comp::SO3 { .. } => AnyComp::SO3(build_so3(c, *f)?),
        });
    }
    Ok(v)
}

impl AnyComp {
    fn distance(&self, cfg: &SpaceCfg, a: &[f64], b: &[f64]) -> f64 {
        match self {
            AnyComp::RV(s) => s.distance(&KRV::dec(cfg, a), &KRV::dec(cfg, b)),
            AnyComp::SO2(s) => s.distance(&KSO2::dec(cfg, a), &KSO2::dec(cfg, b)),
            AnyComp::SO3(s) => s.distance(&KSO3::dec(cfg, a), &KSO3::dec(cfg, b)),
        }
    }
    fn interpolate(&self, cfg: &SpaceCfg, a: &[f64], b: &[f64], t: f64, init: &[f64]) -> Vec<f64> {
        match self {
            AnyComp::RV(s) => {
                let mut o = KRV::dec(cfg, init);
                s.interpolate(&KRV::dec(cfg, a), &KRV::dec(cfg, b), t, &mut o);
                KRV::enc(&o)
            }
            AnyComp::SO2(s) => {
                let mut o = KSO2::dec(cfg, init);
                s.interpolate(&KSO2::dec(cfg, a), &KSO2::dec(cfg, b), t, &mut o);
                KSO2::enc(&o)
            }
            AnyComp::SO3(s) => {
                let mut o = KSO3::dec(cfg, init);
                s.interpolate(&KSO3::dec(cfg, a), &KSO3::dec(cfg, b), t, &mut o);
                KSO3::enc(&o)
            }
        }
    }
    fn enforce(&self, cfg: &SpaceCfg, a: &[f64]) -> Vec<f64> {
        match self {
            AnyComp::RV(s) => {
                let mut o = KRV::dec(cfg, a);
                s.enforce_bounds(&mut o);
                KRV::enc(&o)
            }
            AnyComp::SO2(s) => {
                let mut o = KSO2::dec(cfg, a);
                s.enforce_bounds(&mut o);
                KSO2::enc(&o)
            }
            AnyComp::SO3(s) => {
                let mut o = KSO3::dec(cfg, a);
                s.enforce_bounds(&mut o);
                KSO3::enc(&o)
            }
        }
    }
    fn satisfies(&self, cfg: &SpaceCfg, a: &[f64]) -> bool {
        match self {
            AnyComp::RV(s) => s.satisfies_bounds(&KRV::dec(cfg, a)),
            AnyComp::SO2(s) => s.satisfies_bounds(&KSO2::dec(cfg, a)),
            AnyComp::SO3(s) => s.satisfies_bounds(&KSO3::dec(cfg, a)),
        }
    }
    fn sample(&self, rng: &mut StdRng) -> Result<Vec<f64>, String> {
        match self {
            AnyComp::RV(s) => s.sample_uniform(rng).map(|x| KRV::enc(&x)).map_err(|e| format!("{e:?}")),
            AnyComp::SO2(s) => s.sample_uniform(rng).map(|x| KSO2::enc(&x)).map_err(|e| format!("{e:?}")),
            AnyComp::SO3(s) => s.sample_uniform(rng).map(|x| KSO3::enc(&x)).map_err(|e| format!("{e:?}")),
        }
    }
    fn lvs(&self) -> f64 {
        match self {
            AnyComp::RV(s) => s.get_longest_valid_segment_length(),
            AnyComp::SO2(s) => s.get_longest_valid_segment_length(),
            AnyComp::SO3(s) => s.get_longest_valid_segment_length(),
        }
    }
}

fn cheap(cfg: &SpaceCfg) -> bool {
    cfg.comps.iter().all(|c| match c {
        Comp::SO3 { bounds: Some((_, a)) } => *a < 1e-9 || *a >= 0.05,
        _ => true,
    })
}

fn check_k<K: Kind>(case: &CompCase, ctx: &mut Ctx) {
    let cfg = &case.space;
    let kind = format!("{:?}", cfg.kind);
    let subject = match K::build(cfg) {
        Ok(s) => s,
        Err(e) => {
            ctx.discard(format!("build: {e}"));
            return;
        }
    };
    let comps = match build_comps(cfg) {
        Ok(c) => c,
        Err(e) => {
            ctx.discard(format!("components: {e}"));
            return;
        }
    };
    let offs = cfg.offsets();
    let sl = |v: &'_ [f64], i: usize| -> Vec<f64> { v[offs[i]..offs[i] + cfg.comps[i].width()].to_vec() };
    let (a, b) = (K::dec(cfg, &case.a), K::dec(cfg, &case.b));
    let r = guarded(|| {
        // distance
        let d = subject.distance(&a, &b);
        let mut tot = 0.0;
        for (i, c) in comps.iter().enumerate() {
            let di = c.distance(cfg, &sl(&case.a, i), &sl(&case.b, i));
            tot += (di * cfg.weights[i]).powi(2);
        }
        let want = tot.sqrt();
        let mut problems: Vec<(String, String)> = Vec::new();
        if !((d - want).abs() <= 1e-14 * want.abs()) && !(d.is_nan() && want.is_nan()) && d.to_bits() != want.to_bits() {
            problems.push((format!("C13:{kind}:distance-law"), format!("distance = {d:e}, sqrt(sum (w_i d_i)^2) = {want:e}")));
        }
        // interpolate (bitwise, component by component)
        let mut out = a.clone();
        subject.interpolate(&a, &b, case.t, &mut out);
        let got = K::enc(&out);
        let mut want_v = Vec::new();
        for (i, c) in comps.iter().enumerate() {
            want_v.extend(c.interpolate(cfg, &sl(&case.a, i), &sl(&case.b, i), case.t, &sl(&case.a, i)));
        }
        if !bits_eq(&got, &want_v) {
            problems.push((format!("C13:{kind}:interpolate-not-componentwise"), format!("interpolate = {got:?}, component by component = {want_v:?}")));
        }
        // enforce / satisfies on b (arbitrary state)
        let mut e = b.clone();
        subject.enforce_bounds(&mut e);
        let got = K::enc(&e);
        let mut want_v = Vec::new();
        let mut want_sat = true;
        for (i, c) in comps.iter().enumerate() {
            want_v.extend(c.enforce(cfg, &sl(&case.b, i)));
            want_sat &= c.satisfies(cfg, &sl(&case.b, i));
        }
        if !bits_eq(&got, &want_v) {
            problems.push((format!("C13:{kind}:enforce-not-componentwise"), format!("enforce_bounds = {got:?}, component by component = {want_v:?}")));
        }
        let sat = subject.satisfies_bounds(&b);
        if sat != want_sat {
            problems.push((format!("C13:{kind}:satisfies-not-conjunction"), format!("satisfies_bounds = {sat}, conjunction of components = {want_sat}")));
        }
        // resolution
        let l = subject.get_longest_valid_segment_length();
        let mut tot = 0.0;
        for (i, c) in comps.iter().enumerate() {
            tot += (c.lvs() * cfg.weights[i]).powi(2);
        }
        let want = tot.sqrt();
        if !((l - want).abs() <= 1e-14 * want.abs()) && l.to_bits() != want.to_bits() {
            problems.push((format!("C13:{kind}:resolution-law"), format!("longest valid segment = {l:e}, sqrt(sum (w_i L_i)^2) = {want:e}")));
        }
        // sampling: same generator, same order, bitwise
        if cheap(cfg) {
            let mut r1 = StdRng::seed_from_u64(case.seed);
            let mut r2 = StdRng::seed_from_u64(case.seed);
            for _ in 0..2 {
                let got = subject.sample_uniform(&mut r1).map(|s| K::enc(&s)).map_err(|e| format!("{e:?}"));
                let mut want_s: Result<Vec<f64>, String> = Ok(Vec::new());
                for c in comps.iter() {
                    match c.sample(&mut r2) {
                        Ok(v) => {
                            if let Ok(w) = want_s.as_mut() {
                                w.extend(v)
                            }
                        }
                        Err(e) => {
                            want_s = Err(e);
                            break;
                        }
                    }
                }
                let same = match (&got, &want_s) {
                    (Ok(x), Ok(y)) => bits_eq(x, y),
                    (Err(x), Err(y)) => x == y,
                    _ => false,
                };
                if !same {
                    problems.push((format!("C13:{kind}:sampling-not-componentwise"), format!("sample_uniform = {got:?}, components in order from the same generator = {want_s:?}")));
                    break;
                }
                if got.is_err() {
                    break;
                }
            }
        }
        problems
    });
    match r {
        Err((msg, loc)) => {
            ctx.panicked = true;
            ctx.discard(format!("panic in a space operation (C11/C12 territory): {msg} at {loc}"));
        }
        Ok(p) => {
            for (s, d) in p {
                ctx.fail(s, d);
            }
        }
    }
    // SE2State::new is the compound of RealVectorState[x, y] and SO2State::new(yaw)
    if cfg.kind == KindTag::SE2 {
        let s = SE2State::new(case.a[0], case.a[1], case.a[2]);
        let f = KSE2::enc(&s);
        let want = vec![case.a[0], case.a[1], oxmpl::base::state::SO2State::new(case.a[2]).value];
        if !bits_eq(&f, &want) {
            ctx.fail("C13:SE2:state-constructor", format!("SE2State::new({:?}) = {f:?}, expected {want:?}", &case.a));
        }
    }
    ctx.label(format!("kind:{kind}"));
    ctx.label(format!("components:{}", cfg.comps.len()));
    let kinds_differ = cfg.comps.iter().map(|c| std::mem::discriminant(c)).collect::<std::collections::HashSet<_>>().len() > 1;
    let weights_differ = cfg.weights.iter().any(|w| *w != cfg.weights[0]);
    ctx.nontrivial = cfg.comps.len() >= 2 && kinds_differ && weights_differ;
}

pub struct C13;
impl Prop for C13 {
    type Case = CompCase;
    const ID: &'static str = "C13";
    const PART: &'static str = "composition";
    const RULE: &'static str = "proptest choice sequences -> compound layouts of 1-4 components from {R^1..3, SO2, SO3} in any order (also SE2/SE3 through their constructors), weights from {0, 1e-6, 1, 1e3, random; rarely 1e-170, 1e160, 1e200, whose squares leave the double range}, component bounds (bounded, unbounded, non-convex), resolution fractions, a state pair (canonical or not), t, sampler seed. Oracle: every operation of the compound/SE2/SE3 space is recomputed component by component with the real component spaces and combined by the documented law: distance and resolution to 1e-14 relative, interpolate / enforce_bounds / sample_uniform bit for bit (same generator, same order), satisfies_bounds as conjunction. Non-trivial = >= 2 components of different kinds with not-all-equal weights.";
    fn random_cases(tier: Tier) -> usize {
        tier.pick(2_000_000, 8_000_000)
    }
    fn gen(ch: &mut Ch, _tier: Tier) -> CompCase {
        let kind = ch.pick(&[KindTag::CS, KindTag::CS, KindTag::SE2, KindTag::SE3]);
        let mut space = gen_space(ch, kind, BoundsMode::Any, kind == KindTag::CS);
        for (i, w) in space.weights.iter_mut().enumerate() {
            if matches!(kind, KindTag::SE2 | KindTag::SE3) && i == 0 {
                continue;
            }
            if ch.prob(0.3) {
                *w = ch.pick(&[0.0, 1e-6, 1.0, 1e3, 0.0, 1e-6, 1.0, 1e3, 1e160, 1e200, 1e-170]);
            }
        }
        let a = gen_any_state(ch, &space);
        let b = gen_any_state(ch, &space);
        CompCase {
            space,
            a,
            b,
            t: ch.unit(),
            seed: ch.seed(),
        }
    }
    fn check(case: &CompCase, ctx: &mut Ctx) {
        crate::with_kind!(case.space.kind, check_k, case, ctx)
    }
}
