//! C12 — constructors accept only well-formed bounds and canonicalise states.

use crate::choice::Ch;
use crate::exec::guarded;
use crate::flat::*;
use crate::gen::*;
use crate::runner::*;
use crate::xf::XF;
use oxmpl::base::error::{StateError, StateSamplingError, StateSpaceError};
use oxmpl::base::space::{
    RealVectorStateSpace, SE2StateSpace, SE3StateSpace, SO2StateSpace, SO3StateSpace, StateSpace,
};
use oxmpl::base::state::{RealVectorState, SE2State, SO2State, SO3State};
use rand::{rngs::StdRng, SeedableRng};
use serde::{Deserialize, Serialize};
use std::f64::consts::PI;

#[derive(Clone, Debug, Serialize, Deserialize)]
pub enum CtorCase {
    RV {
        dim: usize,
        bounds: Option<Vec<(XF, XF)>>,
        probe: Vec<f64>,
    },
    SO2 {
        bounds: Option<(XF, XF)>,
        probe: f64,
    },
    SO3 {
        bounds: Option<([XF; 4], XF)>,
        probe: [f64; 4],
    },
    SE2 {
        weight: f64,
        bounds: Option<Vec<(XF, XF)>>,
    },
    SE3 {
        weight: f64,
        bounds: Option<Vec<(XF, XF)>>,
    },
    Angle {
        v: f64,
    },
    SE2Angle {
        x: f64,
        y: f64,
        yaw: f64,
    },
    Quat {
        q: [f64; 4],
    },
}

pub fn lattice_v() -> Vec<f64> {
    vec![
        f64::NEG_INFINITY,
        -1e308,
        -4.0,
        next_down(-PI),
        -PI,
        next_up(-PI),
        -1.0,
        -0.0,
        0.0,
        1e-300,
        1.0,
        next_down(PI),
        PI,
        next_up(PI),
        4.0,
        1e308,
        f64::INFINITY,
        f64::NAN,
    ]
}

fn un(b: &[(XF, XF)]) -> Vec<(f64, f64)> {
    b.iter().map(|(a, b)| (a.0, b.0)).collect()
}
fn same_f(a: f64, b: f64) -> bool {
    a.to_bits() == b.to_bits() || (a.is_nan() && b.is_nan())
}

/// Reference predicate for RV bounds: Ok(()) if well-formed, else the expected error.
fn rv_expected(dim: usize, bounds: &Option<Vec<(f64, f64)>>) -> Result<(), String> {
    match bounds {
        Some(b) => {
            if b.len() != dim {
                return Err(format!("DimensionMismatch {{ expected: {dim}, found: {} }}", b.len()));
            }
            for (lo, hi) in b {
                if lo.is_nan() || hi.is_nan() || !(lo < hi) {
                    return Err("InvalidBound".to_string());
                }
            }
            Ok(())
        }
        None => {
            if dim == 0 {
                Err("ZeroDimensionUnbounded".to_string())
            } else {
                Ok(())
            }
        }
    }
}

fn err_matches(e: &StateSpaceError, expected: &str, lohi: Option<(f64, f64)>) -> bool {
    match e {
        StateSpaceError::DimensionMismatch { expected: x, found } => {
            expected == format!("DimensionMismatch {{ expected: {x}, found: {found} }}")
        }
        StateSpaceError::InvalidBound { lower, upper } => {
            expected == "InvalidBound"
                && lohi
                    .map(|(l, u)| same_f(*lower, l) && same_f(*upper, u))
                    .unwrap_or(true)
        }
        StateSpaceError::ZeroDimensionUnbounded => expected == "ZeroDimensionUnbounded",
        StateSpaceError::InvalidAngularDistance { .. } => expected == "InvalidAngularDistance",
    }
}

fn first_bad(b: &[(f64, f64)]) -> Option<(f64, f64)> {
    b.iter()
        .copied()
        .find(|(lo, hi)| lo.is_nan() || hi.is_nan() || !(lo < hi))
}

fn use_rv(sp: &RealVectorStateSpace, probe: &[f64], ctx: &mut Ctx, who: &str) {
    let dim = sp.dimension;
    let all_finite = sp.bounds.iter().all(|(l, h)| l.is_finite() && h.is_finite());
    let overflow = sp.bounds.iter().any(|(l, h)| l.is_finite() && h.is_finite() && !(h - l).is_finite());
    let first_unb = sp.bounds.iter().position(|(l, h)| !l.is_finite() || !h.is_finite());
    let r = guarded(|| {
        let mut rng = StdRng::seed_from_u64(7);
        sp.sample_uniform(&mut rng)
    });
    match r {
        Err((msg, loc)) => ctx.fail(
            if overflow {
                format!("C12:{who}:sample-panic-on-accepted-bounds(width-overflow)")
            } else {
                format!("C12:{who}:sample-panic-on-accepted-bounds")
            },
            format!("bounds {:?} accepted, sample_uniform panicked: {msg} at {loc}", sp.bounds),
        ),
        Ok(Ok(s)) => {
            if !all_finite {
                ctx.fail(format!("C12:{who}:sampled-unbounded"), format!("bounds {:?}", sp.bounds));
            }
            let ok = s.values.len() == dim
                && s.values.iter().zip(&sp.bounds).all(|(v, (l, h))| v >= l && v <= h);
            if !ok {
                ctx.fail(
                    format!("C12:{who}:sample-out-of-bounds"),
                    format!("sample {:?} for bounds {:?}", s.values, sp.bounds),
                );
            }
        }
        Ok(Err(StateSamplingError::UnboundedDimension { dimension_index })) => {
            if first_unb != Some(dimension_index) {
                ctx.fail(
                    format!("C12:{who}:wrong-unbounded-error"),
                    format!("UnboundedDimension{{{dimension_index}}} for bounds {:?}", sp.bounds),
                );
            }
        }
        Ok(Err(e)) => ctx.fail(
            format!("C12:{who}:unexpected-sampling-error"),
            format!("{e:?} for accepted bounds {:?}", sp.bounds),
        ),
    }
    if probe.len() == dim {
        let r = guarded(|| {
            let mut st = RealVectorState { values: probe.to_vec() };
            let a = sp.satisfies_bounds(&st);
            sp.enforce_bounds(&mut st);
            let b = sp.satisfies_bounds(&st);
            let _ = sp.get_longest_valid_segment_length();
            (a, b, st.values)
        });
        match r {
            Err((msg, loc)) => ctx.fail(
                format!("C12:{who}:bounds-op-panic-on-accepted-bounds"),
                format!("bounds {:?} accepted, enforce/satisfies panicked on {probe:?}: {msg} at {loc}", sp.bounds),
            ),
            Ok((_, after, vals)) => {
                if !after {
                    ctx.fail(
                        format!("C12:{who}:enforce-then-reject"),
                        format!("bounds {:?}: enforce({probe:?}) = {vals:?} rejected", sp.bounds),
                    );
                }
            }
        }
    }
}

fn check_rv(dim: usize, bounds: &Option<Vec<(XF, XF)>>, probe: &[f64], ctx: &mut Ctx, who: &str) -> bool {
    let b = bounds.as_ref().map(|b| un(b));
    let expected = rv_expected(dim, &b);
    let r = guarded(|| RealVectorStateSpace::new(dim, b.clone()));
    let actual = match r {
        Err((msg, loc)) => {
            ctx.fail(format!("C12:{who}:constructor-panic"), format!("new({dim}, {b:?}) panicked: {msg} at {loc}"));
            return false;
        }
        Ok(a) => a,
    };
    let nontrivial = expected.is_err()
        || b.as_ref().map(|b| b.iter().any(|(l, h)| !l.is_finite() || !h.is_finite())).unwrap_or(false);
    match (&expected, actual) {
        (Ok(()), Ok(sp)) => {
            let want: Vec<(f64, f64)> = b.clone().unwrap_or_else(|| vec![(f64::NEG_INFINITY, f64::INFINITY); dim]);
            let verbatim = sp.bounds.len() == want.len()
                && sp.bounds.iter().zip(&want).all(|(x, y)| same_f(x.0, y.0) && same_f(x.1, y.1));
            if !verbatim || sp.dimension != dim {
                ctx.fail(
                    format!("C12:{who}:bounds-not-stored-verbatim"),
                    format!("new({dim}, {b:?}) stored dimension {} bounds {:?}", sp.dimension, sp.bounds),
                );
            }
            use_rv(&sp, probe, ctx, who);
        }
        (Ok(()), Err(e)) => ctx.fail(
            format!("C12:{who}:well-formed-bounds-rejected"),
            format!("new({dim}, {b:?}) = Err({e:?})"),
        ),
        (Err(exp), Ok(sp)) => {
            let has_nan = b.as_ref().map(|b| b.iter().any(|(l, h)| l.is_nan() || h.is_nan())).unwrap_or(false);
            ctx.fail(
                if has_nan {
                    format!("C12:{who}:nan-bound-accepted")
                } else {
                    format!("C12:{who}:ill-formed-bounds-accepted")
                },
                format!("new({dim}, {b:?}) = Ok (stored {:?}), expected Err({exp})", sp.bounds),
            );
            // still probe usability so that the consequence is on record
            use_rv(&sp, probe, ctx, who);
        }
        (Err(exp), Err(e)) => {
            let lohi = b.as_ref().and_then(|b| if b.len() == dim { first_bad(b) } else { None });
            if !err_matches(&e, exp, lohi) {
                ctx.fail(
                    format!("C12:{who}:wrong-error"),
                    format!("new({dim}, {b:?}) = Err({e:?}), expected Err({exp}) with the offending pair {lohi:?}"),
                );
            }
        }
    }
    nontrivial
}

fn so2_stored_ok(lo: f64, hi: f64) -> bool {
    !lo.is_nan() && !hi.is_nan() && lo < hi && lo >= -PI && hi <= PI
}

fn check_so2(bounds: &Option<(XF, XF)>, probe: f64, ctx: &mut Ctx, who: &str) -> bool {
    let b = bounds.map(|(l, h)| (l.0, h.0));
    let r = guarded(|| SO2StateSpace::new(b));
    let actual = match r {
        Err((msg, loc)) => {
            ctx.fail(format!("C12:{who}:constructor-panic"), format!("new({b:?}) panicked: {msg} at {loc}"));
            return false;
        }
        Ok(a) => a,
    };
    let well_formed_input = match b {
        None => true,
        Some((lo, hi)) => so2_stored_ok(lo, hi),
    };
    match actual {
        Ok(sp) => {
            let (lo, hi) = sp.bounds;
            if !so2_stored_ok(lo, hi) {
                ctx.fail(
                    format!("C12:{who}:ill-formed-stored-bounds"),
                    format!("new({b:?}) = Ok with stored bounds ({lo:e}, {hi:e})"),
                );
            }
            if well_formed_input {
                let want = b.unwrap_or((-PI, PI));
                if !(same_f(lo, want.0) && same_f(hi, want.1)) {
                    ctx.fail(
                        format!("C12:{who}:bounds-not-stored-verbatim"),
                        format!("new({b:?}) stored ({lo:e}, {hi:e})"),
                    );
                }
            }
            // usable?
            let r = guarded(|| {
                let mut rng = StdRng::seed_from_u64(7);
                let s = sp.sample_uniform(&mut rng);
                let mut st = SO2State { value: probe };
                let _ = sp.satisfies_bounds(&st);
                sp.enforce_bounds(&mut st);
                let after = sp.satisfies_bounds(&st);
                let _ = sp.get_longest_valid_segment_length();
                (s, after, st.value)
            });
            match r {
                Err((msg, loc)) => ctx.fail(
                    format!("C12:{who}:panic-on-accepted-bounds"),
                    format!("new({b:?}) accepted (stored ({lo:e}, {hi:e})), then sample/enforce/satisfies panicked: {msg} at {loc}"),
                ),
                Ok((s, after, val)) => {
                    match s {
                        Ok(s) => {
                            if !(s.value >= lo && s.value <= hi) {
                                ctx.fail(format!("C12:{who}:sample-out-of-bounds"), format!("sample {:e} for stored ({lo:e}, {hi:e})", s.value));
                            }
                        }
                        Err(e) => ctx.fail(format!("C12:{who}:unexpected-sampling-error"), format!("{e:?}")),
                    }
                    if !after && so2_stored_ok(lo, hi) {
                        ctx.fail(format!("C12:{who}:enforce-then-reject"), format!("stored ({lo:e}, {hi:e}): enforce({probe:e}) = {val:e} rejected"));
                    }
                }
            }
        }
        Err(e) => {
            if well_formed_input {
                ctx.fail(format!("C12:{who}:well-formed-bounds-rejected"), format!("new({b:?}) = Err({e:?})"));
            } else if let Some((lo, hi)) = b {
                if !err_matches(&e, "InvalidBound", Some((lo, hi))) {
                    ctx.fail(format!("C12:{who}:wrong-error"), format!("new({b:?}) = Err({e:?}), expected InvalidBound with the given pair"));
                }
            }
        }
    }
    !well_formed_input
}

fn check_so3(bounds: &Option<([XF; 4], XF)>, probe: &[f64; 4], ctx: &mut Ctx) -> bool {
    let b = bounds.map(|(q, a)| ([q[0].0, q[1].0, q[2].0, q[3].0], a.0));
    let arg = b.map(|(q, a)| (SO3State::new(q[0], q[1], q[2], q[3]), a));
    let r = guarded(|| SO3StateSpace::new(arg.clone()));
    let actual = match r {
        Err((msg, loc)) => {
            ctx.fail("C12:SO3:constructor-panic", format!("new({b:?}) panicked: {msg} at {loc}"));
            return false;
        }
        Ok(a) => a,
    };
    let centre_nan = b.map(|(q, _)| q.iter().any(|x| x.is_nan())).unwrap_or(false);
    let centre_unit = b.map(|(q, _)| (quat_norm(&q) - 1.0).abs() <= 1e-9).unwrap_or(true);
    let nontrivial = b.map(|(_, a)| !a.is_finite() || a < 0.0 || a > PI || a == 0.0).unwrap_or(false) || centre_nan;
    match actual {
        Ok(sp) => {
            let (c, ang) = &sp.bounds;
            if let Some((_, a)) = b {
                if a < 0.0 {
                    ctx.fail("C12:SO3:negative-radius-accepted", format!("new({b:?}) = Ok"));
                }
            }
            if !(*ang >= 0.0 && *ang <= PI) {
                ctx.fail("C12:SO3:ill-formed-stored-radius", format!("new({b:?}) stored radius {ang:e}"));
            }
            if [c.x, c.y, c.z, c.w].iter().any(|x| x.is_nan()) {
                ctx.fail("C12:SO3:nan-centre-accepted", format!("new({b:?}) = Ok with a NaN centre"));
                return nontrivial;
            }
            if let Some((q, a)) = b {
                if a >= 0.0 && a <= PI && !(same_f(*ang, a) && same_f(c.x, q[0]) && same_f(c.y, q[1]) && same_f(c.z, q[2]) && same_f(c.w, q[3])) {
                    ctx.fail("C12:SO3:bounds-not-stored-verbatim", format!("new({b:?}) stored ({c:?}, {ang:e})"));
                }
            }
            if !centre_unit {
                return nontrivial;
            }
            let cheap = *ang < 1e-9 || *ang >= 0.05;
            let r = guarded(|| {
                let mut rng = StdRng::seed_from_u64(7);
                let s = if cheap { Some(sp.sample_uniform(&mut rng)) } else { None };
                let mut st = SO3State::new(probe[0], probe[1], probe[2], probe[3]);
                let _ = sp.satisfies_bounds(&st);
                sp.enforce_bounds(&mut st);
                let _ = sp.get_longest_valid_segment_length();
                (s, st)
            });
            match r {
                Err((msg, loc)) => ctx.fail(
                    "C12:SO3:panic-on-accepted-bounds",
                    format!("new({b:?}) accepted, then sample/enforce/satisfies panicked: {msg} at {loc}"),
                ),
                Ok((s, st)) => {
                    if let Some(s) = s {
                        match s {
                            Ok(q) => {
                                let d = ref_so3_distance(&[c.x, c.y, c.z, c.w], &[q.x, q.y, q.z, q.w]);
                                if !(d <= ang + 1e-6) {
                                    ctx.fail("C12:SO3:sample-out-of-bounds", format!("sample at distance {d:e} from the centre, radius {ang:e}"));
                                }
                            }
                            Err(e) => ctx.fail("C12:SO3:unexpected-sampling-error", format!("{e:?}")),
                        }
                    }
                    let n = quat_norm(&[st.x, st.y, st.z, st.w]);
                    if !((n - 1.0).abs() <= 1e-9) {
                        ctx.fail("C12:SO3:enforce-non-unit", format!("enforce_bounds({probe:?}) has norm {n:e}"));
                    }
                }
            }
        }
        Err(e) => {
            match b {
                Some((_, a)) if a < 0.0 => {
                    if !matches!(e, StateSpaceError::InvalidAngularDistance { lower } if same_f(lower, a)) {
                        ctx.fail("C12:SO3:wrong-error", format!("new({b:?}) = Err({e:?}), expected InvalidAngularDistance{{{a}}}"));
                    }
                }
                Some((_, a)) if a.is_nan() || centre_nan => {}
                _ => ctx.fail("C12:SO3:well-formed-bounds-rejected", format!("new({b:?}) = Err({e:?})")),
            }
        }
    }
    nontrivial
}

fn check_se(weight: f64, bounds: &Option<Vec<(XF, XF)>>, three_d: bool, ctx: &mut Ctx) -> bool {
    let who = if three_d { "SE3" } else { "SE2" };
    let b = bounds.as_ref().map(|b| un(b));
    let r = guarded(|| {
        if three_d {
            SE3StateSpace::new(weight, b.clone()).map(|s| s.0)
        } else {
            SE2StateSpace::new(weight, b.clone()).map(|s| s.0)
        }
    });
    let actual = match r {
        Err((msg, loc)) => {
            ctx.fail(format!("C12:{who}:constructor-panic"), format!("new({weight}, {b:?}) panicked: {msg} at {loc}"));
            return false;
        }
        Ok(a) => a,
    };
    // reference: composition of the component constructors, in order
    let nrv = if three_d { 3 } else { 2 };
    let expected: Result<(), String> = match &b {
        Some(v) if v.len() != 3 => Err(format!("DimensionMismatch {{ expected: 3, found: {} }}", v.len())),
        Some(v) => {
            let rvb: Vec<(f64, f64)> = v[..nrv.min(v.len())].to_vec();
            match rv_expected(nrv, &Some(rvb)) {
                Err(e) => Err(e),
                Ok(()) => {
                    if !three_d {
                        match guarded(|| SO2StateSpace::new(Some(v[2]))) {
                            Ok(Ok(_)) => Ok(()),
                            Ok(Err(_)) => Err("InvalidBound".into()),
                            Err(_) => Err("panic".into()),
                        }
                    } else {
                        Ok(())
                    }
                }
            }
        }
        None => Ok(()),
    };
    let nontrivial = expected.is_err();
    match (&expected, actual) {
        (Ok(()), Ok(cs)) => {
            if cs.subspaces.len() != 2 || cs.weights.len() != 2 || !same_f(cs.weights[0], 1.0) || !same_f(cs.weights[1], weight) {
                ctx.fail(format!("C12:{who}:wrong-composition"), format!("weights {:?}", cs.weights));
            }
        }
        (Ok(()), Err(e)) => ctx.fail(format!("C12:{who}:well-formed-bounds-rejected"), format!("new({weight}, {b:?}) = Err({e:?})")),
        (Err(exp), Ok(_)) => {
            let has_nan = b.as_ref().map(|b| b.iter().any(|(l, h)| l.is_nan() || h.is_nan())).unwrap_or(false);
            ctx.fail(
                if has_nan { format!("C12:{who}:nan-bound-accepted") } else { format!("C12:{who}:ill-formed-bounds-accepted") },
                format!("new({weight}, {b:?}) = Ok, expected Err({exp})"),
            );
        }
        (Err(exp), Err(e)) => {
            if !err_matches(&e, exp, None) {
                ctx.fail(format!("C12:{who}:wrong-error"), format!("new({weight}, {b:?}) = Err({e:?}), expected Err({exp})"));
            }
        }
    }
    nontrivial
}

fn check_angle(v: f64, r: f64, ctx: &mut Ctx, who: &str) {
    if !(r >= -PI && r <= PI) {
        ctx.fail(format!("C12:{who}:angle-not-in-range"), format!("new({v:e}) stored {r:e}"));
        return;
    }
    if v.abs() <= 1e12 {
        let tol = 1e-15 * (1.0 + v.abs());
        if (r.sin() - v.sin()).abs() > tol || (r.cos() - v.cos()).abs() > tol {
            ctx.fail(
                format!("C12:{who}:angle-not-congruent"),
                format!("new({v:e}) stored {r:e}: sin/cos differ by ({:e}, {:e}) > {tol:e}", (r.sin() - v.sin()).abs(), (r.cos() - v.cos()).abs()),
            );
        }
    }
}

pub struct C12;
impl Prop for C12 {
    type Case = CtorCase;
    const ID: &'static str = "C12";
    const PART: &'static str = "constructors";
    const RULE: &'static str = "lattice (exhaustive): bound pairs (lo,hi) in V x V, V = {-inf,-1e308,-4,-pi-ulp,-pi,-pi+ulp,-1,-0,0,1e-300,1,pi-ulp,pi,pi+ulp,4,1e308,inf,NaN}, for SO2, per dimension for RV (dimension 0-3 x bounds length 0-4 x None) and in each slot of SE2/SE3; SO3 radius over V and {-1e-7, -5e-8, -1e-300, 5e-8} with unit / negated / NaN centres; SO2State/SE2State::new and SO3State::normalise over special magnitudes (0, 1e-300..1e300, multiples of pi +-ulp; zero, 1e-200, 1e-10, 1e-9+-, unit, 1e150, 1e200, mixed quaternions); plus random fill-in. Oracle: reference well-formedness predicate in both directions (ill-formed => documented error with the right payload; well-formed and in range => accepted, stored verbatim), and every accepted space is exercised (sample, enforce, satisfies, resolution) under catch_unwind. Non-trivial = an argument tuple with a non-finite, inverted, equal, out-of-range or wrong-length component (or an angle outside [-pi,pi) / a non-unit quaternion).";
    fn random_cases(tier: Tier) -> usize {
        tier.pick(2_000_000, 8_000_000)
    }
    fn gen(ch: &mut Ch, _tier: Tier) -> CtorCase {
        let v = lattice_v();
        let val = |ch: &mut Ch| -> f64 {
            match ch.weighted(&[2.0, 3.0, 1.0]) {
                0 => ch.pick(&v),
                1 => ch.range(-5.0, 5.0),
                _ => ch.range(-1.0, 1.0) * 1e6,
            }
        };
        let pair = |ch: &mut Ch| -> (XF, XF) {
            if ch.prob(0.6) {
                let lo = ch.range(-5.0, 4.0);
                (XF(lo), XF(lo + ch.range(0.01, 3.0)))
            } else {
                (XF(val(ch)), XF(val(ch)))
            }
        };
        match ch.below(8) {
            0 => {
                let dim = ch.below(4);
                let bounds = if ch.prob(0.15) {
                    None
                } else {
                    let len = if ch.prob(0.8) { dim } else { ch.below(5) };
                    Some((0..len).map(|_| pair(ch)).collect())
                };
                let probe = (0..dim).map(|_| ch.range(-10.0, 10.0)).collect();
                CtorCase::RV { dim, bounds, probe }
            }
            1 => CtorCase::SO2 {
                bounds: if ch.prob(0.1) { None } else { Some(pair(ch)) },
                probe: ch.range(-10.0, 10.0),
            },
            2 => {
                let c = gen_unit_quat(ch);
                let a = match ch.below(4) {
                    0 => ch.pick(&v),
                    1 => ch.range(-1.0, 4.0),
                    2 => -ch.log_range(1e-12, 1e-3),
                    _ => ch.range(0.05, PI),
                };
                let p = gen_unit_quat(ch);
                CtorCase::SO3 {
                    bounds: if ch.prob(0.1) { None } else { Some(([XF(c[0]), XF(c[1]), XF(c[2]), XF(c[3])], XF(a))) },
                    probe: p,
                }
            }
            3 | 4 => {
                let bounds = if ch.prob(0.15) {
                    None
                } else {
                    let len = if ch.prob(0.8) { 3 } else { ch.below(6) };
                    Some((0..len).map(|_| pair(ch)).collect())
                };
                let weight = gen_weight(ch);
                if ch.prob(0.5) {
                    CtorCase::SE2 { weight, bounds }
                } else {
                    CtorCase::SE3 { weight, bounds }
                }
            }
            5 => CtorCase::Angle {
                v: match ch.below(4) {
                    0 => ch.range(-10.0, 10.0),
                    1 => ch.int(-1000, 1000) as f64 * PI * ch.pick(&[1.0, 0.5, 2.0]) + ch.pick(&[0.0, 1e-15, -1e-15, 1e-9]),
                    2 => ch.range(-1.0, 1.0) * ch.log_range(1.0, 1e300),
                    _ => ch.range(-1.0, 1.0) * ch.log_range(1e-300, 1.0),
                },
            },
            6 => CtorCase::SE2Angle {
                x: ch.range(-5.0, 5.0),
                y: ch.range(-5.0, 5.0),
                yaw: ch.range(-1.0, 1.0) * ch.log_range(1.0, 1e15),
            },
            _ => {
                let q = gen_unit_quat(ch);
                let s = match ch.below(4) {
                    0 => 1.0,
                    1 => ch.log_range(1e-12, 1e-6),
                    2 => ch.log_range(1e-200, 1e200),
                    _ => ch.log_range(0.1, 10.0),
                };
                let mut o = [q[0] * s, q[1] * s, q[2] * s, q[3] * s];
                if ch.prob(0.2) {
                    // mixed magnitudes
                    let i = ch.below(4);
                    o[i] *= ch.pick(&[1e-150, 1e150, 0.0]);
                }
                // finite quaternions only (the statement quantifies over finite inputs)
                for x in o.iter_mut() {
                    if !x.is_finite() {
                        *x = 1e300f64.copysign(*x);
                    }
                }
                CtorCase::Quat { q: o }
            }
        }
    }
    fn enumerate(_tier: Tier, emit: &mut dyn FnMut(CtorCase)) {
        let v = lattice_v();
        let good = (XF(-1.0), XF(1.0));
        // SO2: all pairs
        for lo in &v {
            for hi in &v {
                emit(CtorCase::SO2 { bounds: Some((XF(*lo), XF(*hi))), probe: 7.0 });
            }
        }
        emit(CtorCase::SO2 { bounds: None, probe: -4.0 });
        // RV: dimension x bounds length, one slot swept over all pairs
        for dim in 0..4usize {
            emit(CtorCase::RV { dim, bounds: None, probe: vec![0.5; dim] });
            for len in 0..5usize {
                if len == 0 {
                    emit(CtorCase::RV { dim, bounds: Some(vec![]), probe: vec![0.5; dim] });
                    continue;
                }
                for slot in 0..len {
                    for lo in &v {
                        for hi in &v {
                            if len != dim && !(lo.to_bits() == (-4.0f64).to_bits() && hi.is_nan()) && !(*lo == -1.0 && *hi == 1.0) {
                                // for mismatching lengths a couple of pairs suffice
                                continue;
                            }
                            let mut b = vec![good; len];
                            b[slot] = (XF(*lo), XF(*hi));
                            emit(CtorCase::RV { dim, bounds: Some(b), probe: vec![0.5; dim] });
                        }
                    }
                }
            }
        }
        // SE2 / SE3: each slot swept, and wrong lengths
        for three_d in [false, true] {
            for len in 0..6usize {
                if len != 3 {
                    let b = Some(vec![good; len]);
                    emit(if three_d { CtorCase::SE3 { weight: 1.0, bounds: b } } else { CtorCase::SE2 { weight: 1.0, bounds: b } });
                    continue;
                }
                for slot in 0..3 {
                    for lo in &v {
                        for hi in &v {
                            let mut b = vec![good; 3];
                            b[slot] = (XF(*lo), XF(*hi));
                            let b = Some(b);
                            emit(if three_d { CtorCase::SE3 { weight: 0.5, bounds: b } } else { CtorCase::SE2 { weight: 0.5, bounds: b } });
                        }
                    }
                }
            }
            emit(if three_d { CtorCase::SE3 { weight: 2.0, bounds: None } } else { CtorCase::SE2 { weight: 2.0, bounds: None } });
        }
        // SO3: radius over V x centres
        let u = 0.5f64;
        let centres: Vec<[f64; 4]> = vec![
            [0.0, 0.0, 0.0, 1.0],
            [u, u, u, u],
            [-u, -u, -u, -u],
            [0.6, 0.0, 0.8, 0.0],
            [f64::NAN, 0.0, 0.0, 1.0],
        ];
        // (radii just below zero as well: a tolerance applied to the wrong test lets them in)
        let mut radii = v.clone();
        radii.extend([-5e-8, -1e-7, -1e-300, 5e-8]);
        for c in &centres {
            for a in &radii {
                emit(CtorCase::SO3 {
                    bounds: Some(([XF(c[0]), XF(c[1]), XF(c[2]), XF(c[3])], XF(*a))),
                    probe: [0.0, 1.0, 0.0, 0.0],
                });
            }
        }
        emit(CtorCase::SO3 { bounds: None, probe: [0.0, 0.0, 0.0, 0.0] });
        // angles
        let mut angles = vec![0.0, -0.0, PI, -PI, next_up(PI), next_down(PI), next_up(-PI), next_down(-PI), 1e-300, -1e-300, 1e6, -1e6, 1e15, -1e15, 1e300, -1e300, 7.0, -7.0];
        for k in -8..=8 {
            let m = k as f64 * PI;
            angles.extend([m, next_up(m), next_down(m), k as f64 * PI / 2.0]);
        }
        for a in &angles {
            emit(CtorCase::Angle { v: *a });
            emit(CtorCase::SE2Angle { x: 1.0, y: -2.0, yaw: *a });
        }
        // quaternions
        let mags = [0.0, 1e-300, 1e-200, 1e-160, 1e-10, 0.9e-9, 1.1e-9, 2.1e-9, 1e-5, 0.5, 1.0, 2.0, 1e10, 1e150, 1e160, 1e200, 1e300];
        let dirs: Vec<[f64; 4]> = vec![[1.0, 0.0, 0.0, 0.0], [0.0, 0.0, 0.0, -1.0], [u, -u, u, u], [0.6, 0.0, 0.8, 0.0]];
        for m in mags {
            for d in &dirs {
                emit(CtorCase::Quat { q: [d[0] * m, d[1] * m, d[2] * m, d[3] * m] });
            }
        }
        emit(CtorCase::Quat { q: [1e-200, 1.0, 0.0, 0.0] });
        emit(CtorCase::Quat { q: [1e200, 1.0, 0.0, 0.0] });
        emit(CtorCase::Quat { q: [1e160, 1e-160, 3.0, 0.0] });
    }
    fn enumeration_is_exhaustive(_tier: Tier) -> bool {
        true
    }
    fn check(case: &CtorCase, ctx: &mut Ctx) {
        match case {
            CtorCase::RV { dim, bounds, probe } => {
                ctx.label("ctor:RV");
                ctx.nontrivial = check_rv(*dim, bounds, probe, ctx, "RV");
            }
            CtorCase::SO2 { bounds, probe } => {
                ctx.label("ctor:SO2");
                ctx.nontrivial = check_so2(bounds, *probe, ctx, "SO2");
            }
            CtorCase::SO3 { bounds, probe } => {
                ctx.label("ctor:SO3");
                ctx.nontrivial = check_so3(bounds, probe, ctx);
            }
            CtorCase::SE2 { weight, bounds } => {
                ctx.label("ctor:SE2");
                ctx.nontrivial = check_se(*weight, bounds, false, ctx);
            }
            CtorCase::SE3 { weight, bounds } => {
                ctx.label("ctor:SE3");
                ctx.nontrivial = check_se(*weight, bounds, true, ctx);
            }
            CtorCase::Angle { v } => {
                ctx.label("state:SO2State::new");
                let r = SO2State::new(*v).value;
                check_angle(*v, r, ctx, "SO2State");
                ctx.nontrivial = !(-PI..PI).contains(v);
            }
            CtorCase::SE2Angle { x, y, yaw } => {
                ctx.label("state:SE2State::new");
                let s = SE2State::new(*x, *y, *yaw);
                check_angle(*yaw, s.get_yaw(), ctx, "SE2State");
                if !same_f(s.get_x(), *x) || !same_f(s.get_y(), *y) {
                    ctx.fail("C12:SE2State:translation-changed", format!("new({x},{y},..) stored ({}, {})", s.get_x(), s.get_y()));
                }
                ctx.nontrivial = !(-PI..PI).contains(yaw);
            }
            CtorCase::Quat { q } => {
                ctx.label("state:SO3State::normalise");
                let n = quat_norm(q);
                let r = guarded(|| SO3State::new(q[0], q[1], q[2], q[3]).normalise());
                match r {
                    Err((msg, loc)) => ctx.fail("C12:SO3State:normalise-panic", format!("{q:?}: {msg} at {loc}")),
                    Ok(Ok(u)) => {
                        let uv = [u.x, u.y, u.z, u.w];
                        let un = quat_norm(&uv);
                        let overflow = q.iter().any(|x| x.abs() > 1e150);
                        let underflow = n > 0.0 && n < 1e-150;
                        if !((un - 1.0).abs() <= 1e-12) {
                            ctx.fail(
                                if overflow { "C12:SO3State:normalise-non-unit(overflow)".to_string() } else if underflow { "C12:SO3State:normalise-non-unit(underflow)".to_string() } else { "C12:SO3State:normalise-non-unit".to_string() },
                                format!("normalise({q:?}) = Ok({uv:?}) with norm {un:e}"),
                            );
                        } else {
                            let par = (0..4).all(|i| (uv[i] - q[i] / n).abs() <= 1e-12);
                            if !par {
                                ctx.fail("C12:SO3State:normalise-not-parallel", format!("normalise({q:?}) = {uv:?}, expected {:?}", q.map(|x| x / n)));
                            }
                        }
                    }
                    Ok(Err(StateError::ZeroMagnitude)) => {
                        if !(n < 2e-9) {
                            ctx.fail("C12:SO3State:spurious-zero-magnitude", format!("normalise({q:?}) = ZeroMagnitude but the norm is {n:e}"));
                        }
                    }
                }
                ctx.nontrivial = (n - 1.0).abs() > 1e-9;
            }
        }
    }
}
