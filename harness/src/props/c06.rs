//! C06 — solve honours its timeout and never claims an unreachable goal.

use super::paths::{common_labels, oracle_b, planner_name};
use super::plan::*;
use crate::choice::Ch;
use crate::exec::*;
use crate::flat::*;
use crate::gen::*;
use crate::runner::*;
use crate::world::{Obst, World};
use std::time::Duration;

const ALLOWANCE: Duration = Duration::from_millis(1000);

#[derive(Clone, Copy, Debug, PartialEq)]
enum Family {
    Feasible,
    GoalSealed,
    GoalInvalid,
    StartSealed,
    /// feasible first query, then setup() again with a checker whose world seals the goal
    ReSetupSealed,
}

fn gen_case(ch: &mut Ch, degenerate: bool) -> PlanCase {
    let prof = Profile {
        max_obst: 2,
        rng_goal: 0.3,
        ..Default::default()
    };
    let mut c = gen_plan_case(ch, &prof);
    let cfg = c.space.clone();
    let lvs = lvs_of(&cfg).unwrap_or(0.05);
    let fam = match ch.weighted(&[3.0, 3.0, 2.0, 2.0, 2.0]) {
        0 => Family::Feasible,
        1 => Family::GoalSealed,
        2 => Family::GoalInvalid,
        3 => Family::StartSealed,
        _ => Family::ReSetupSealed,
    };
    let start = c.problems[0].start.clone();
    // single target for the infeasible families
    if fam != Family::Feasible {
        c.problems[0].goal.targets.truncate(1);
    }
    let target = c.problems[0].goal.targets[0].clone();
    let gr = c.problems[0].goal.radius;
    let d = ref_distance(&cfg, &start, &target);
    match fam {
        Family::Feasible | Family::ReSetupSealed => {}
        Family::GoalSealed => {
            let thick = lvs * ch.range(1.1, 3.0);
            let r_in = gr * 1.2 + 1e-6;
            if d > r_in + thick + 1e-6 {
                c.world.obst.push(Obst::Shell {
                    c: target.clone(),
                    r_in,
                    r_out: r_in + thick,
                });
            } else {
                // no room for the shell: make the whole goal invalid instead
                c.world.obst.push(Obst::Ball {
                    c: target.clone(),
                    r: gr * 1.5 + 1e-6,
                });
            }
        }
        Family::GoalInvalid => {
            c.world.obst.push(Obst::Ball {
                c: target.clone(),
                r: gr * 1.5 + 1e-6,
            });
        }
        Family::StartSealed => {
            let thick = lvs * ch.range(1.1, 3.0);
            let r_in = (d * ch.range(0.05, 0.3)).max(1e-9);
            if r_in + thick < d - gr {
                c.world.obst.push(Obst::Shell {
                    c: start.clone(),
                    r_in,
                    r_out: r_in + thick,
                });
            } else {
                c.world.obst.push(Obst::Ball {
                    c: target.clone(),
                    r: gr * 1.5 + 1e-6,
                });
            }
        }
    }
    // keep per-iteration cost bounded: resolution fraction >= 0.01 (generator default) and a
    // moderate step
    let t_us = ch.pick(&[0u64, 1_000, 5_000, 20_000, 50_000]);
    c.ops = if c.planner == PlannerTag::PRM {
        vec![
            Op::Setup(0),
            Op::ConstructTimed {
                us: ch.pick(&[0u64, 1_000, 5_000, 20_000]),
            },
            Op::SolveTimed { us: t_us },
        ]
    } else {
        vec![Op::Setup(0), Op::SolveTimed { us: t_us }]
    };
    c.query_cap = usize::MAX;
    if fam == Family::ReSetupSealed && c.problems[0].goal.targets.len() == 1 {
        // same start and goal again, but the second setup's checker sees a world in which the
        // goal is sealed off (or, if there is no room for a shell, entirely invalid)
        let mut w2 = c.world.clone();
        let thick = lvs * ch.range(1.1, 3.0);
        let r_in = gr * 1.2 + 1e-6;
        if d > r_in + thick + 1e-6 {
            w2.obst.push(Obst::Shell {
                c: target.clone(),
                r_in,
                r_out: r_in + thick,
            });
        } else {
            w2.obst.push(Obst::Ball {
                c: target.clone(),
                r: gr * 1.5 + 1e-6,
            });
        }
        let p0 = c.problems[0].clone();
        c.problems.truncate(1);
        c.problems.push(p0);
        c.world2 = Some(w2);
        let t2 = ch.pick(&[5_000u64, 20_000, 50_000]);
        c.ops = if c.planner == PlannerTag::PRM {
            vec![
                Op::Setup(0),
                Op::ConstructTimed { us: 5_000 },
                Op::SolveTimed { us: t_us },
                Op::Setup(1),
                Op::ConstructTimed { us: 5_000 },
                Op::SolveTimed { us: t2 },
            ]
        } else {
            vec![Op::Setup(0), Op::SolveTimed { us: t_us.max(5_000) }, Op::Setup(1), Op::SolveTimed { us: t2 }]
        };
    }
    if !degenerate && ch.prob(0.12) {
        // a step that is minute next to the distances in the space (or zero): any loop that
        // covers a distance step by step without looking at the clock runs for minutes
        c.step = match ch.weighted(&[5.0, 1.0]) {
            0 => d.max(lvs) * ch.log_range(1e-7, 1e-4),
            _ => 0.0,
        };
        c.radius = c.radius.max(c.step);
    }
    if !degenerate && ch.prob(0.06) {
        // one coordinate of an R^n component unbounded: uniform sampling reports an error (the
        // iteration is skipped), goal samples still drive the tree; extent and resolution come
        // from the documented fallback for unbounded spaces
        let mut done = false;
        for comp in c.space.comps.iter_mut() {
            if let Comp::RV { bounds: Some(b), .. } = comp {
                let k = ch.below(b.len());
                b[k] = match ch.below(3) {
                    0 => (f64::NEG_INFINITY, f64::INFINITY),
                    1 => (b[k].0, f64::INFINITY),
                    _ => (f64::NEG_INFINITY, b[k].1),
                };
                done = true;
                break;
            }
        }
        if done {
            c.goal_bias = ch.pick(&[0.3, 0.6, 1.0]);
        }
    }
    if degenerate {
        // degenerate resolution: fraction 0 / negative / -0.0 on every component
        let f = ch.pick(&[0.0, -1.0, -0.0, -1e-300]);
        for fr in c.space.fracs.iter_mut() {
            *fr = Some(f);
        }
        c.world = World::default();
        c.ops = if c.planner == PlannerTag::PRM {
            vec![Op::Setup(0), Op::ConstructTimed { us: 20_000 }, Op::SolveTimed { us: 100_000 }]
        } else {
            vec![Op::Setup(0), Op::SolveTimed { us: 100_000 }]
        };
    }
    c
}

/// Is the first problem infeasible by construction? (reference: the goal region is entirely
/// invalid, or a closed shell of thickness >= L separates start and goal)
fn infeasible<K: Kind>(case: &PlanCase, pi: usize, wi: usize, lvs: f64) -> Option<&'static str> {
    let cfg = &case.space;
    let p = &case.problems[pi];
    if p.goal.targets.len() != 1 {
        return None;
    }
    let t = &p.goal.targets[0];
    let gr = p.goal.radius;
    let d_st = ref_distance(cfg, &p.start, t);
    let slack = 1e-6;
    for o in &case.world_by_index(wi).obst {
        match o {
            Obst::Ball { c, r } if bits_eq(c, t) && *r >= gr + slack => return Some("goal-region-invalid"),
            Obst::Shell { c, r_in, r_out } if *r_out - *r_in >= lvs * 1.05 => {
                if bits_eq(c, t) && *r_in >= gr + slack && d_st > *r_out + slack {
                    return Some("goal-sealed");
                }
                if bits_eq(c, &p.start) && d_st - gr > *r_out + slack {
                    return Some("start-sealed");
                }
            }
            _ => {}
        }
    }
    None
}

fn c06_k<K: Kind>(case: &PlanCase, ctx: &mut Ctx) {
    let pname = planner_name(case.planner);
    let run = || run_case::<K>(case);
    let trace = match run() {
        Ok(t) => t,
        Err(e) => {
            ctx.discard(format!("unbuildable: {e}"));
            return;
        }
    };
    common_labels(case, &trace, ctx);
    let degenerate = case.space.fracs.iter().any(|f| matches!(f, Some(x) if *x <= 0.0));
    if degenerate {
        ctx.label("degenerate-resolution");
        ctx.nontrivial = true;
    }
    // which worlds count as infeasible is decided with the *documented* resolution, so that a
    // space reporting an inflated resolution cannot excuse a path through a thick wall
    let lvs_ref = ref_lvs(&case.space);
    if !degenerate && !((trace.lvs - lvs_ref).abs() <= 1e-12 * lvs_ref.abs()) {
        ctx.label("reported-resolution-differs-from-documented");
    }
    let lvs = if degenerate { trace.lvs } else { trace.lvs.min(lvs_ref) };
    let worlds = step_worlds(case, &trace);
    let mut cur_problem = 0usize;
    for (i, st) in trace.steps.iter().enumerate() {
        if let Op::Setup(p) = st.op {
            cur_problem = p % case.problems.len();
        }
        let inf = if degenerate { None } else { infeasible::<K>(case, cur_problem, worlds[i], lvs) };
        if matches!(st.op, Op::SolveTimed { .. }) {
            if let Some(w) = inf {
                ctx.label(format!("infeasible:{w}{}", if worlds[i] == 1 { "(after re-setup)" } else { "" }));
                ctx.nontrivial = true;
            }
        }
        if matches!(st.res, Res::Panic { .. }) {
            ctx.panicked = true;
            return;
        }
        let limit = match st.op {
            Op::SolveTimed { us } | Op::ConstructTimed { us } => Duration::from_micros(us),
            _ => continue,
        };
        let what = if matches!(st.op, Op::SolveTimed { .. }) { "solve" } else { "construct_roadmap" };
        if st.elapsed > limit + ALLOWANCE {
            // confirm: scheduling noise is independent across repetitions, a missing deadline
            // check is not
            let mut all = true;
            for _ in 0..3 {
                if let Ok(t2) = run() {
                    if t2.steps.get(i).map(|s| s.elapsed <= limit + ALLOWANCE).unwrap_or(true) {
                        all = false;
                        break;
                    }
                }
            }
            if all {
                ctx.fail(
                    format!("C06:deadline-overrun:{pname}:{what}"),
                    format!("step {i} ({:?}) took {:?} (and again in 3 repetitions), limit {:?} + allowance {:?}", st.op, st.elapsed, limit, ALLOWANCE),
                );
            } else {
                ctx.label("overshoot-not-reproduced(inconclusive)");
            }
        }
        // "within T plus the cost of one planning iteration", free of timing noise: every
        // iteration draws exactly one sample, the loop starts after the planner read the clock,
        // and the deadline is looked at before each iteration - so at most one sampler call of
        // the loop can fall later than (first sampler call of the loop + T). Calls made before
        // the loop (RRT-Connect's goal-root re-draw) are the ones in excess of the iteration
        // count reported by the hook.
        {
            let calls = &trace.rec.call_times[st.sampler_calls.0.min(trace.rec.call_times.len())..st.sampler_calls.1.min(trace.rec.call_times.len())];
            let pre = calls.len().saturating_sub(st.ticks as usize);
            let looped = &calls[pre..];
            if let Some(first) = looped.first() {
                let deadline = *first + limit;
                let late = looped.iter().filter(|t| **t > deadline).count();
                if late > 0 {
                    ctx.label("iteration-in-progress-at-the-deadline");
                }
                if late > 1 {
                    ctx.fail(
                        format!("C06:iterations-started-after-deadline:{pname}:{what}"),
                        format!(
                            "step {i} ({:?}): {late} of {} iterations drew their sample more than T = {:?} after the first iteration's sample, i.e. were started after the deadline had passed (at most one iteration can be in progress at the deadline)",
                            st.op,
                            looped.len(),
                            limit
                        ),
                    );
                }
            }
        }
        if let (Op::SolveTimed { .. }, Res::Path(p)) = (&st.op, &st.res) {
            if let Some(w) = inf {
                // locate the offending edge for the report
                let mut where_ = String::new();
                if let Some(ks) = KSpace::<K>::new(&case.space) {
                    for k in 0..p.len().saturating_sub(1) {
                        let r = oracle_b(&ks, case.world_by_index(worlds[i]), &p[k], &p[k + 1], lvs);
                        if r > 0.0 {
                            where_ = format!("; segment {k} crosses an invalid stretch of length >= {r:e}");
                            break;
                        }
                    }
                }
                ctx.fail(
                    format!("C06:path-on-infeasible-problem:{pname}:{w}"),
                    format!("solve returned a path of {} states although the problem is infeasible ({w}){where_}", p.len()),
                );
            }
        }
        if let (Op::SolveTimed { .. }, Res::Err(e)) = (&st.op, &st.res) {
            if e == "Timeout" {
                ctx.label("deadline-fired");
                ctx.nontrivial = true;
            }
        }
    }
}

pub struct C06;
impl Prop for C06 {
    type Case = PlanCase;
    const ID: &'static str = "C06";
    const PART: &'static str = "timed-runs";
    const RULE: &'static str = "proptest-generated planner cases run under real wall-clock limits T in {0, 1, 5, 20, 50} ms (PRM build time in {0, 1, 5, 20} ms), no iteration budget: feasible worlds and four infeasible families (goal sealed by a closed shell of thickness >= 1.1 L, goal region entirely invalid, start sealed in, and a feasible query followed by setup() with a checker whose world seals the goal) x 4 planners x 6 kinds x parameters x seeds; 10% degenerate resolutions (longest-valid-segment fraction 0 / negative / -0.0, then solve(100 ms)); 12% minute steps (1e-7..1e-4 of the start-goal distance, or 0); 6% of the cases with one R^n coordinate unbounded on one or both sides (uniform sampling fails, goal samples drive the tree). Oracle: elapsed <= T + 1 s for solve and construct_roadmap (an overshoot must repeat in 3 more runs of the same case to count); at most one iteration may draw its sample later than T after the first iteration's sample (iterations started after the deadline, from the instants of the sampler calls - independent of how long an iteration takes); Ok(path) on an infeasible world is a violation, and a call that does not return within the 20 s watchdog is a violation ('blocks indefinitely'). Non-trivial = infeasible world, a deadline that actually fired (Err(Timeout)), or a degenerate resolution.";
    const HANG_IS_VIOLATION: bool = true;
    const WATCHDOG_S: u64 = 20;
    const MAX_SHRINK_ITERS: u32 = 100;
    fn random_cases(tier: Tier) -> usize {
        tier.pick(8_000, 40_000)
    }
    fn gen(ch: &mut Ch, _tier: Tier) -> PlanCase {
        let degenerate = ch.prob(0.1);
        gen_case(ch, degenerate)
    }
    fn check(case: &PlanCase, ctx: &mut Ctx) {
        crate::with_kind!(case.space.kind, c06_k, case, ctx)
    }
}

#[allow(dead_code)]
fn _u(_: BoundsMode) {}
