//! C18 — the PRM roadmap is a faithful graph and queries are complete on it.

use super::explore::{alphabet, worlds};
use super::paths::{common_labels, decode_log, oracle_a, oracle_b, DecodedLog};
use super::plan::*;
use crate::choice::Ch;
use crate::exec::*;
use crate::flat::*;
use crate::runner::*;
use crate::wrap::GoalCfg;
use std::collections::VecDeque;

type Roadmap = Vec<(Vec<f64>, Vec<usize>)>;

fn roadmap_eq(a: &Roadmap, b: &Roadmap) -> bool {
    a.len() == b.len() && a.iter().zip(b).all(|(x, y)| bits_eq(&x.0, &y.0) && x.1 == y.1)
}

/// Outcome of the motion check whose queries start at `vlog[pos]` (all queries carrying the same
/// motion-check id): Some((passed, position after it)).
fn next_motion(vlog: &[(Vec<f64>, bool)], ids: &[u64], pos: usize) -> Option<(bool, usize)> {
    if pos >= vlog.len() {
        return None;
    }
    let id = ids[pos];
    if id % 2 == 0 {
        // not inside a motion check (the counter is odd exactly while one runs)
        return None;
    }
    let mut p = pos;
    let mut ok = true;
    while p < vlog.len() && ids[p] == id {
        ok &= vlog[p].1;
        p += 1;
    }
    Some((ok, p))
}

fn c18_k<K: Kind>(case: &PlanCase, trace: &Trace, ctx: &mut Ctx) {
    let Some(ks) = KSpace::<K>::new(&case.space) else { return };
    let cfg = &case.space;
    let lvs = trace.lvs;
    let radius = case.radius;
    let log: DecodedLog<K> = decode_log::<K>(cfg, &trace.rec.vlog);
    let free = case.world.is_free();
    let mut prev_slot: Option<Roadmap> = None;
    walk_model(case, trace, |i, m, st| {
        if matches!(st.res, Res::Panic { .. }) {
            ctx.panicked = true;
            return;
        }
        let Snap::Roadmap(rm) = &st.snap else { return };
        let prev: Option<Roadmap> = prev_slot.replace(rm.clone());
        match &st.op {
            Op::Setup(_) => {
                if !rm.is_empty() {
                    ctx.fail("C18:setup-keeps-roadmap", format!("step {i}: roadmap has {} milestones after setup", rm.len()));
                }
            }
            Op::SetProblem(_) => {
                if let Some(p) = &prev {
                    if !roadmap_eq(p, rm) {
                        ctx.fail("C18:set-problem-changes-roadmap", format!("step {i}: set_problem_definition changed the roadmap"));
                    }
                    if !rm.is_empty() {
                        ctx.label("problem-replaced-on-built-roadmap");
                    }
                }
            }
            Op::Construct { .. } => {
                if !(m.checker && m.problem.is_some()) {
                    // uninitialised: nothing may happen
                } else if prev.as_ref().map(|p| !p.is_empty()).unwrap_or(false) {
                    // repeated construction: unchanged, no sample drawn
                    if !roadmap_eq(prev.as_ref().unwrap(), rm) {
                        ctx.fail("C18:repeated-construct-changes-roadmap", format!("step {i}: a second construct_roadmap changed the roadmap ({} -> {} milestones)", prev.as_ref().unwrap().len(), rm.len()));
                    }
                    if st.uniform_calls.1 != st.uniform_calls.0 {
                        ctx.fail("C18:repeated-construct-samples", format!("step {i}: a second construct_roadmap drew {} samples", st.uniform_calls.1 - st.uniform_calls.0));
                    }
                    ctx.label("repeated-construct");
                } else {
                    // fresh construction: milestones == valid samples drawn, in order, bitwise
                    let samples = &trace.rec.samples[st.samples.0..st.samples.1];
                    let want: Vec<&Vec<f64>> = samples.iter().filter(|s| case.world_by_index(m.world).valid(cfg, s)).collect();
                    let same = want.len() == rm.len() && want.iter().zip(rm.iter()).all(|(a, b)| bits_eq(a, &b.0));
                    if !same {
                        ctx.fail(
                            "C18:milestones-are-not-the-valid-samples",
                            format!("step {i}: {} samples drawn, {} of them valid, roadmap has {} milestones (or their order/bits differ)", samples.len(), want.len(), rm.len()),
                        );
                        return;
                    }
                    // adjacency structure
                    let n = rm.len();
                    for (a, (_, adj)) in rm.iter().enumerate() {
                        let mut seen = std::collections::HashSet::new();
                        for b in adj {
                            if *b >= n {
                                ctx.fail("C18:link-out-of-range", format!("milestone {a} links to {b} >= {n}"));
                                return;
                            }
                            if *b == a {
                                ctx.fail("C18:self-link", format!("milestone {a} links to itself"));
                            }
                            if !seen.insert(*b) {
                                ctx.fail("C18:duplicate-link", format!("milestone {a} links to {b} twice"));
                            }
                            if !rm[*b].1.contains(&a) {
                                ctx.fail("C18:asymmetric-link", format!("milestone {a} links to {b} but not vice versa"));
                            }
                        }
                    }
                    // Replay the construction against the ordered validity log: sample k is
                    // queried itself, then - if valid - one motion check per earlier milestone
                    // within the radius, in index order. This yields, exactly, which pairs must
                    // be linked, and the log slice that validated each link.
                    let vlog = &trace.rec.vlog[st.vlog.0..st.vlog.1];
                    let ids = &trace.rec.vmotion[st.vlog.0..st.vlog.1];
                    let mut pos = 0usize;
                    let mut built = 0usize; // milestones so far
                    let mut comps = 0;
                    'replay: for smp in samples {
                        if pos >= vlog.len() {
                            ctx.fail("C18:sample-not-validity-checked", "a drawn sample was never passed to the checker");
                            break;
                        }
                        let (qs, ans) = &vlog[pos];
                        if !bits_eq(qs, smp) {
                            ctx.fail("C18:sample-not-validity-checked", format!("expected a validity query on sample {smp:?}, log has {qs:?}"));
                            break;
                        }
                        pos += 1;
                        if !*ans {
                            continue;
                        }
                        let a = built;
                        for b in 0..a {
                            let d = ks.d(&rm[a].0, &rm[b].0);
                            let d_rev = ks.d(&rm[b].0, &rm[a].0);
                            let linked = rm[a].1.contains(&b);
                            // "closer than the radius" is decided exactly; where the two argument
                            // orders of the metric disagree about it (a last-bit tie that the
                            // statement does not resolve) the case is not judged
                            if (d < radius) != (d_rev < radius) {
                                ctx.discard("radius tie between the two argument orders of the metric");
                                break 'replay;
                            }
                            let within = d < radius;
                            if within {
                                let Some((ok, np)) = next_motion(vlog, ids, pos) else {
                                    ctx.fail("C18:pair-within-radius-not-motion-checked", format!("milestones {b} and {a} are {d:e} apart (< radius {radius:e}) but the log holds no motion check between them"));
                                    break 'replay;
                                };
                                let (lo, hi) = (st.vlog.0 + pos, st.vlog.0 + np);
                                pos = np;
                                if ok && !linked {
                                    ctx.fail("C18:missing-link", format!("milestones {b} and {a} are {d:e} apart (< radius {radius:e}), their motion check passed, but they are not linked"));
                                }
                                if !ok && linked {
                                    ctx.fail("C18:link-despite-rejected-motion", format!("milestones {b} and {a} are linked although a query of their motion check was rejected"));
                                }
                                if linked {
                                    let (gap, dd, n_on, _) = oracle_a(&ks, &log, lo, hi, &rm[a].0, &rm[b].0);
                                    let tol = seg_tol(cfg, dd);
                                    if gap > lvs + tol {
                                        ctx.fail("C18:link-not-motion-checked", format!("link {b}-{a} of length {dd:e}: largest stretch without an accepted validity query {gap:e} > L = {lvs:e} ({n_on} on-segment queries)"));
                                    }
                                    let run = oracle_b(&ks, case.world_by_index(m.world), &rm[a].0, &rm[b].0, lvs);
                                    if run >= lvs + tol {
                                        ctx.fail("C18:link-crosses-invalid-stretch", format!("link {b}-{a} crosses an invalid stretch >= {run:e}"));
                                    }
                                }
                            } else if linked {
                                ctx.fail("C18:link-longer-than-radius", format!("milestones {b}-{a} linked at distance {d:e} >= radius {radius:e}"));
                            }
                        }
                        built += 1;
                    }
                    let _ = free;
                    // component count (label)
                    let mut seen = vec![false; n];
                    for s in 0..n {
                        if !seen[s] {
                            comps += 1;
                            let mut q = VecDeque::from([s]);
                            seen[s] = true;
                            while let Some(x) = q.pop_front() {
                                for y in &rm[x].1 {
                                    if !seen[*y] {
                                        seen[*y] = true;
                                        q.push_back(*y);
                                    }
                                }
                            }
                        }
                    }
                    if comps >= 2 {
                        ctx.label("roadmap-with->=2-components");
                        ctx.nontrivial = true;
                    }
                }
            }
            Op::Solve { .. } => {
                if let Some(p) = &prev {
                    if !roadmap_eq(p, rm) {
                        ctx.fail("C18:solve-changes-roadmap", format!("step {i}: solve changed the roadmap"));
                    }
                }
                let (Some(pi), true) = (m.problem, m.checker) else { return };
                if rm.is_empty() {
                    return;
                }
                let prob = &case.problems[pi];
                if !case.world_by_index(m.world).valid(cfg, &prob.start) {
                    return;
                }
                // reference: start connections, in milestone order, from the ordered log
                let vlog = &trace.rec.vlog[st.vlog.0..st.vlog.1];
                let ids = &trace.rec.vmotion[st.vlog.0..st.vlog.1];
                let mut pos = 1.min(vlog.len()); // is_valid(start)
                let mut s_set = Vec::new();
                for (k, (ms, _)) in rm.iter().enumerate() {
                    if (ks.d(&prob.start, ms) < radius) != (ks.d(ms, &prob.start) < radius) {
                        ctx.discard("radius tie between the two argument orders of the metric");
                        return;
                    }
                    if ks.d(&prob.start, ms) < radius {
                        match next_motion(vlog, ids, pos) {
                            Some((ok, p)) => {
                                pos = p;
                                if ok {
                                    s_set.push(k);
                                }
                            }
                            None => {
                                ctx.fail("C18:start-connection-not-checked", format!("step {i}: milestone {k} is within the radius of the start but no motion check toward it is in the log"));
                                return;
                            }
                        }
                    }
                }
                let g_set: Vec<usize> = (0..rm.len()).filter(|k| ks.goal_satisfied(&prob.goal, &rm[*k].0)).collect();
                // multi-source BFS
                let mut dist = vec![usize::MAX; rm.len()];
                let mut q = VecDeque::new();
                for s in &s_set {
                    dist[*s] = 1;
                    q.push_back(*s);
                }
                while let Some(x) = q.pop_front() {
                    for y in &rm[x].1 {
                        if dist[*y] == usize::MAX {
                            dist[*y] = dist[x] + 1;
                            q.push_back(*y);
                        }
                    }
                }
                let best = g_set.iter().map(|g| dist[*g]).min().unwrap_or(usize::MAX);
                match &st.res {
                    Res::Path(p) => {
                        if best == usize::MAX {
                            ctx.fail("C18:path-although-disconnected", format!("step {i}: Ok(path) but no goal milestone is graph-connected to a start connection (|S| = {}, |G| = {})", s_set.len(), g_set.len()));
                            return;
                        }
                        if p.is_empty() || !bits_eq(&p[0], &prob.start) {
                            ctx.fail("C18:path-does-not-start-at-start", format!("step {i}"));
                            return;
                        }
                        // walk along snapshot edges (states may repeat: track index sets)
                        let mut cur: Vec<usize> = s_set.iter().copied().filter(|k| p.len() > 1 && bits_eq(&rm[*k].0, &p[1])).collect();
                        for k in 2..p.len() {
                            let mut nxt = Vec::new();
                            for a in &cur {
                                for b in &rm[*a].1 {
                                    if bits_eq(&rm[*b].0, &p[k]) && !nxt.contains(b) {
                                        nxt.push(*b);
                                    }
                                }
                            }
                            cur = nxt;
                        }
                        if p.len() < 2 || !cur.iter().any(|k| g_set.contains(k)) {
                            ctx.fail("C18:path-is-not-a-roadmap-walk", format!("step {i}: the returned path is not start ++ a walk along roadmap links from a start connection to a goal milestone"));
                            return;
                        }
                        if p.len() - 1 != best {
                            ctx.fail("C18:path-not-hop-minimal", format!("step {i}: path visits {} milestones, the fewest possible is {best}", p.len() - 1));
                        }
                        if best >= 3 {
                            ctx.label("answer-with->=3-milestones");
                            ctx.nontrivial = true;
                        }
                        if pi != 0 || trace.steps[..i].iter().any(|s| matches!(s.op, Op::SetProblem(_))) {
                            ctx.label("query-after-problem-replacement");
                            ctx.nontrivial = true;
                        }
                    }
                    Res::Err(e) if e == "NoSolutionFound" => {
                        if best != usize::MAX {
                            ctx.fail("C18:false-no-solution", format!("step {i}: NoSolutionFound although a goal milestone is {best} milestones from the start (|S| = {}, |G| = {})", s_set.len(), g_set.len()));
                        }
                        ctx.label("no-solution-confirmed");
                    }
                    other => {
                        ctx.fail("C18:unexpected-query-result", format!("step {i}: {:?}", other.tag()));
                    }
                }
            }
            _ => {}
        }
    });
}

pub fn c18_oracle(case: &PlanCase, trace: &Trace, ctx: &mut Ctx) {
    crate::with_kind!(case.space.kind, c18_k, case, trace, ctx)
}

/// radius_factor > 0: multiple of the alphabet diameter; radius_factor = -(k): exactly the distance
/// between alphabet states 0 and k (so that `<` versus `<=` on the radius matters)
fn scripted_case(kind: KindTag, world: usize, radius_factor: f64, seq: &[usize]) -> PlanCase {
    let a = alphabet(kind);
    let ws = worlds(&a);
    let diam = (0..a.states.len())
        .flat_map(|i| (0..a.states.len()).map(move |j| (i, j)))
        .map(|(i, j)| ref_distance(&a.space, &a.states[i], &a.states[j]))
        .fold(0.0f64, f64::max);
    let goal = |t: &Vec<f64>| GoalCfg {
        targets: vec![t.clone()],
        radius: a.goal_radius,
        rng_sampler: false,
        half: false,
    };
    let n = a.states.len();
    PlanCase {
        space: a.space.clone(),
        world: ws[world % ws.len()].clone(),
        problems: vec![
            Problem {
                start: a.states[0].clone(),
                goal: goal(&a.states[2]),
                extra_starts: vec![],
                no_start: false,
            },
            Problem {
                start: a.states[n - 1].clone(),
                goal: goal(&a.states[0]),
                extra_starts: vec![],
                no_start: false,
            },
        ],
        planner: PlannerTag::PRM,
        step: a.step,
        goal_bias: 0.0,
        radius: if radius_factor > 0.0 {
            diam * radius_factor
        } else {
            exact_distance(kind, &a, (-radius_factor) as usize)
        },
        seed: Some(0),
        script: Some(seq.iter().map(|i| a.states[*i].clone()).collect()),
        ops: vec![
            Op::Setup(0),
            Op::Construct { budget: seq.len() as u64 },
            Op::Solve { budget: 0 },
            Op::Construct { budget: 3 },
            Op::SetProblem(1),
            Op::Solve { budget: 0 },
        ],
        space_fail_at: None,
        goal_fail_at: None,
        empty_starts: false,
        query_cap: 400_000,
        world2: None,
        space2: None,
        fault_persists: false,
        raw_space: false,
        prm_timeout: None,
    }
}

fn exact_k<K: Kind>(a: &super::explore::Alphabet, k: usize) -> f64 {
    // the planner's own argument order: distance(new sample, earlier milestone)
    KSpace::<K>::new(&a.space).map(|ks| ks.d(&a.states[k], &a.states[0])).unwrap_or(1.0)
}
fn exact_distance(kind: KindTag, a: &super::explore::Alphabet, k: usize) -> f64 {
    crate::with_kind!(kind, exact_k, a, k)
}

pub struct C18Scripted;
impl Prop for C18Scripted {
    type Case = PlanCase;
    const ID: &'static str = "C18";
    const PART: &'static str = "scripted-bounded-exhaustive";
    const RULE: &'static str = "every sample sequence of length 1..4 (quick; length 4 only in the free and the wall world) / 1..5 (thorough) over the per-kind state alphabet (duplicates, seam / antipodal / -q states) x worlds over the alphabet x connection radius in {0.35, 0.7, 1.2} x alphabet diameter and exactly the distance between two alphabet states (strictness of the radius test), fed to the real PRM through a scripted sampler with history setup(P1), construct, solve, construct (again), set_problem_definition(P2), solve. Non-trivial = roadmap with >= 2 connected components, an answer with >= 3 milestones, or a query after a problem replacement.";
    fn random_cases(_tier: Tier) -> usize {
        0
    }
    fn gen(_ch: &mut Ch, _tier: Tier) -> PlanCase {
        unreachable!()
    }
    fn enumerate(tier: Tier, emit: &mut dyn FnMut(PlanCase)) {
        let maxlen = tier.pick(4, 5);
        for kind in ALL_KINDS {
            let a = alphabet(kind);
            let nw = worlds(&a).len();
            let n = a.states.len();
            for world in 0..nw {
                for rf in [0.35, 0.7, 1.2, -2.0, -3.0] {
                    let mut seqs: Vec<Vec<usize>> = vec![vec![]];
                    for len in 1..=maxlen {
                        let deep_ok = tier == Tier::Thorough || len < 4 || world == 0 || world == nw - 1;
                        if !deep_ok {
                            break;
                        }
                        let mut next = Vec::new();
                        for s in &seqs {
                            for x in 0..n {
                                let mut t = s.clone();
                                t.push(x);
                                next.push(t);
                            }
                        }
                        for s in &next {
                            emit(scripted_case(kind, world, rf, s));
                        }
                        seqs = next;
                    }
                }
            }
        }
    }
    fn enumeration_is_exhaustive(_tier: Tier) -> bool {
        true
    }
    fn check(case: &PlanCase, ctx: &mut Ctx) {
        match run_case_dyn(case) {
            Err(e) => ctx.discard(format!("unbuildable: {e}")),
            Ok(trace) => {
                ctx.label(format!("kind:{:?}", case.space.kind));
                c18_oracle(case, &trace, ctx);
            }
        }
    }
}

pub struct C18Random;
impl Prop for C18Random {
    type Case = PlanCase;
    const ID: &'static str = "C18";
    const PART: &'static str = "random-roadmaps";
    const RULE: &'static str = "proptest-generated PRM cases: generated spaces/worlds (30% obstacle-free for exact link completeness), 20-400 recorded samples from the real seeded sampler, connection radius 0.1-0.7 x extent, query histories over {construct, solve, set_problem_definition(P1|P2), setup} with two problems. Non-trivial as in the scripted part.";
    fn random_cases(tier: Tier) -> usize {
        tier.pick(4_000, 30_000)
    }
    fn gen(ch: &mut Ch, tier: Tier) -> PlanCase {
        let prof = Profile {
            planners: vec![PlannerTag::PRM],
            histories: true,
            max_obst: 3,
            ..Default::default()
        };
        let mut c = gen_plan_case(ch, &prof);
        if ch.prob(0.3) {
            c.world = Default::default();
        }
        let b = match tier {
            Tier::Quick => ch.int(20, 120),
            Tier::Thorough => ch.int(20, 400),
        } as u64;
        let mut ops = vec![Op::Setup(0), Op::Construct { budget: b }];
        let n = 1 + ch.below(6);
        for _ in 0..n {
            ops.push(match ch.weighted(&[5.0, 2.0, 2.0, 0.7]) {
                0 => Op::Solve { budget: 0 },
                1 => Op::SetProblem(ch.below(2)),
                2 => Op::Construct { budget: b / 2 },
                _ => Op::Setup(ch.below(2)),
            });
        }
        c.ops = ops;
        c
    }
    fn check(case: &PlanCase, ctx: &mut Ctx) {
        match run_case_dyn(case) {
            Err(e) => ctx.discard(format!("unbuildable: {e}")),
            Ok(trace) => {
                common_labels(case, &trace, ctx);
                if trace.rec.vlog.len() > 150_000 {
                    ctx.discard("log too large");
                    return;
                }
                c18_oracle(case, &trace, ctx);
            }
        }
    }
}
