//! C08 — API misuse and sampler failures surface as errors, never panics or stale answers.

use super::lattice::{cfg_rv, cfg_se2};
use super::paths::{c02_oracle, common_labels, planner_name};
use super::plan::*;
use crate::choice::Ch;
use crate::exec::*;
use crate::flat::*;
use crate::gen::BoundsMode;
use crate::runner::*;
use crate::world::{Obst, World};
use crate::wrap::GoalCfg;

pub fn msg_class(msg: &str) -> String {
    if msg.contains("outside range") {
        "goal-bias-outside-[0,1]".into()
    } else if msg.contains("unwrap()` on an `Err` value") {
        let v = msg.split("value: ").nth(1).unwrap_or("?");
        let v: String = v.chars().take_while(|c| c.is_alphanumeric()).collect();
        format!("unwrap-on-sampler-error({v})")
    } else if msg.contains("index out of bounds") {
        "index-out-of-bounds".into()
    } else {
        msg.chars()
            .take(60)
            .map(|c| if c.is_ascii_digit() { '#' } else { c })
            .collect()
    }
}
fn file_of(loc: &str) -> String {
    loc.rsplit('/').next().unwrap_or(loc).split(':').next().unwrap_or("").to_string()
}
fn op_name(op: &Op) -> &'static str {
    match op {
        Op::Setup(_) => "setup",
        Op::SetProblem(_) => "set_problem_definition",
        Op::Construct { .. } | Op::ConstructTimed { .. } => "construct_roadmap",
        Op::Solve { .. } | Op::SolveTimed { .. } => "solve",
        Op::SetParams { .. } => "set_params",
    }
}

fn params_in_range(p: (f64, f64, f64)) -> bool {
    let (step, goal_bias, radius) = p;
    (0.0..=1.0).contains(&goal_bias) && step.is_finite() && step > 0.0 && radius.is_finite() && radius > 0.0
}

pub fn c08_oracle(case: &PlanCase, trace: &Trace, ctx: &mut Ctx) {
    let pname = planner_name(case.planner);
    let cfg = &case.space;
    let mut misuse = false;
    let mut fault_reached = false;
    let in_range = trace.steps.iter().all(|st| params_in_range(st.params));
    walk_model(case, trace, |i, m, st| {
        let hit = |k: usize, r: (usize, usize)| {
            if case.fault_persists {
                r.1 > r.0 && r.1 > k
            } else {
                r.0 <= k && k < r.1
            }
        };
        let fault_here = case.space_fail_at.map(|k| hit(k, st.uniform_calls)).unwrap_or(false)
            || case.goal_fail_at.map(|k| hit(k, st.goal_calls)).unwrap_or(false);
        if fault_here {
            fault_reached = true;
        }
        if let Res::Panic { msg, loc } = &st.res {
            if msg.starts_with(crate::wrap::HARNESS_ABORT) {
                return;
            }
            ctx.fail(
                format!("C08:panic:{pname}:{}:{}@{}", op_name(&st.op), msg_class(msg), file_of(loc)),
                format!("step {i} ({:?}) panicked: {msg} at {loc}", st.op),
            );
            return;
        }
        let initialised = m.checker && m.problem.is_some();
        let in_range = params_in_range(st.params);
        match &st.op {
            Op::Setup(_) | Op::SetProblem(_) | Op::SetParams { .. } => {}
            Op::Construct { .. } | Op::ConstructTimed { .. } => {
                if case.planner != PlannerTag::PRM {
                    return;
                }
                if !initialised {
                    misuse = true;
                    if st.res != Res::Err("PlannerUninitialised".into()) {
                        ctx.fail(
                            format!("C08:wrong-result:{pname}:construct-before-setup"),
                            format!("step {i}: construct_roadmap before setup returned {:?}", st.res),
                        );
                    }
                } else if !fault_here && st.res != Res::Unit {
                    ctx.fail(
                        format!("C08:wrong-result:{pname}:construct"),
                        format!("step {i}: construct_roadmap on an initialised planner returned {:?}", st.res),
                    );
                }
            }
            Op::Solve { .. } | Op::SolveTimed { .. } => {
                let tag = st.res.tag();
                if !initialised {
                    misuse = true;
                    if tag != "PlannerUninitialised" {
                        ctx.fail(
                            format!("C08:wrong-result:{pname}:solve-before-setup"),
                            format!("step {i}: solve before setup returned {:?}", st.res.tag()),
                        );
                    }
                    return;
                }
                if case.empty_starts || case.problems[m.problem.unwrap()].no_start {
                    if tag == "Ok" {
                        ctx.fail(format!("C08:path-from-empty-start-list:{pname}"), "Ok(path) with no start state");
                    }
                    return;
                }
                let prob = &case.problems[m.problem.unwrap()];
                let start_valid = case.world_by_index(m.world).valid(cfg, &prob.start);
                let mut allowed: Vec<&str> = Vec::new();
                if case.planner == PlannerTag::PRM && m.roadmap_len == 0 {
                    misuse = true;
                    allowed.push("UnsampledStateSpace");
                } else if !start_valid {
                    allowed.push("InvalidStartState");
                } else {
                    allowed.extend(["Ok", "Timeout", "NoSolutionFound"]);
                }
                if case.planner == PlannerTag::PRM && m.roadmap_len == 0 && !start_valid {
                    allowed.push("InvalidStartState");
                }
                let lenient = fault_here || !in_range;
                let ok = allowed.contains(&tag.as_str())
                    || (lenient && tag != "Ok" && tag != "Panic")
                    || (lenient && tag == "Ok" && start_valid);
                if !ok {
                    ctx.fail(
                        format!("C08:wrong-result:{pname}:solve:{}-instead-of-{}", tag, allowed.join("|")),
                        format!("step {i} ({:?}): returned {tag}, the reference model allows {allowed:?} (roadmap milestones: {}, start valid: {start_valid})", st.op, m.roadmap_len),
                    );
                }
            }
        }
    });
    // a successful solve always answers the most recently installed problem
    c02_oracle(case, trace, ctx);
    if misuse {
        ctx.label("misuse-op");
    }
    if fault_reached {
        ctx.label("sampler-fault-reached");
    }
    if !in_range {
        ctx.label("parameter-out-of-range");
    }
    let any_empty = case.empty_starts || case.problems.iter().any(|p| p.no_start);
    if any_empty {
        ctx.label("empty-start-list");
    }
    ctx.nontrivial = misuse || fault_reached || !in_range || any_empty;
}

fn base_case(kind: KindTag, planner: PlannerTag) -> PlanCase {
    let (space, s1, g1, s2, g2, obst) = match kind {
        KindTag::SE2 => {
            let mut c = cfg_se2(0.5);
            c.comps[0] = Comp::RV {
                dim: 2,
                bounds: Some(vec![(-2.0, 2.0), (-2.0, 2.0)]),
            };
            (
                c,
                vec![-1.5, 0.0, 0.0],
                vec![1.5, 0.0, 0.0],
                vec![0.0, -1.5, 1.0],
                vec![0.0, 1.5, -1.0],
                Obst::Box {
                    dims: vec![(0, -0.2, 0.2), (1, -0.3, 0.3)],
                },
            )
        }
        _ => {
            let mut c = cfg_rv(2);
            c.comps[0] = Comp::RV {
                dim: 2,
                bounds: Some(vec![(-2.0, 2.0), (-2.0, 2.0)]),
            };
            (
                c,
                vec![-1.5, 0.0],
                vec![1.5, 0.0],
                vec![0.0, -1.5],
                vec![0.0, 1.5],
                Obst::Box {
                    dims: vec![(0, -0.2, 0.2), (1, -0.3, 0.3)],
                },
            )
        }
    };
    let goal = |t: Vec<f64>| GoalCfg {
        targets: vec![t],
        radius: 0.3,
        rng_sampler: false,
        half: false,
    };
    PlanCase {
        space,
        world: World {
            obst: vec![obst],
            only_inside: None,
            sballs: vec![],
        },
        problems: vec![
            Problem {
                start: s1,
                goal: goal(g1),
                extra_starts: vec![],
                no_start: false,
            },
            Problem {
                start: s2,
                goal: goal(g2),
                extra_starts: vec![],
                no_start: false,
            },
        ],
        planner,
        step: 0.5,
        goal_bias: 0.1,
        radius: 1.0,
        seed: Some(1),
        script: None,
        ops: vec![],
        space_fail_at: None,
        goal_fail_at: None,
        empty_starts: false,
        query_cap: 400_000,
        world2: None,
        space2: None,
        fault_persists: false,
        raw_space: false,
        prm_timeout: None,
    }
}

pub struct C08;
impl Prop for C08 {
    type Case = PlanCase;
    const ID: &'static str = "C08";
    const PART: &'static str = "histories-and-faults";
    // every loop of the planners is bounded by the iteration budget or by a fixed attempt count:
    // a call that does not return under a failing sampler has not "surfaced the failure as an
    // error"
    const HANG_IS_VIOLATION: bool = true;
    const WATCHDOG_S: u64 = 30;
    const RULE: &'static str = "enumerated: every call sequence of length <= 4 (quick) / 6 (thorough) over {setup(P1), setup(P2), construct_roadmap, set_problem_definition(P2), solve} per planner on two base worlds (RV2, SE2); every k < 12 for 'uniform sampler fails at its k-th call' and 'goal sampler fails at its k-th call' per planner, and k in {0,1,2,5} for the same faults persisting from the k-th call on (a call that does not return within 30 s is a violation); goal bias in {-0.1, 1+ulp, 1.5, NaN, +-inf}; empty start list; negative / NaN / zero step and radius; PRM construction times in {-1, -1e-9, +-0, NaN, +-inf, 1e300}; zero-sample roadmaps. Random (4% with an angular interval the constructor must refuse: touching [-pi, pi] from outside or empty after clamping): generated worlds with histories of up to 10 ops and the same fault kinds. Reference model of the API state gives the set of acceptable results per call; every call runs under catch_unwind. Non-trivial = history containing a misuse op, a sampler fault that was actually reached, an out-of-range parameter or an empty start list.";
    fn random_cases(tier: Tier) -> usize {
        tier.pick(8_000, 80_000)
    }
    fn gen(ch: &mut Ch, _tier: Tier) -> PlanCase {
        let prof = Profile {
            histories: true,
            max_obst: 2,
            budget_scale: 0.2,
            p_marginal_start: 0.1,
            // one case in ten plans in a space that cannot be sampled (unbounded R^n part): every
            // draw fails inside the real space, not in the harness wrapper
            bounds: if ch.prob(0.1) { BoundsMode::Any } else { BoundsMode::BoundedConvex },
            ..Default::default()
        };
        let mut c = gen_plan_case(ch, &prof);
        // ill-formed angular intervals that a constructor must refuse (the case is then
        // unbuildable and discarded): touching [-pi, pi] from outside, empty after clamping
        if ch.prob(0.04) {
            for comp in c.space.comps.iter_mut() {
                if let Comp::SO2 { bounds } = comp {
                    let pi = std::f64::consts::PI;
                    *bounds = Some(ch.pick(&[(pi, 4.0), (-4.0, -pi), (pi, pi + 1.0), (3.5, 4.0), (-5.0, -4.0)]));
                    break;
                }
            }
        }
        // PRM construction times a caller might pass: negative, zero, NaN, infinite, absurdly large
        if c.planner == PlannerTag::PRM && ch.prob(0.12) {
            c.prm_timeout = Some(ch.pick(&[-1.0, -0.0, 0.0, f64::NAN, f64::INFINITY, f64::NEG_INFINITY, 1e300, -1e-9]));
        }
        // misuse-heavy histories: drop the well-formed prefix half of the time
        if ch.prob(0.5) {
            let n = 1 + ch.below(10);
            let mut ops = Vec::new();
            for _ in 0..n {
                ops.push(match ch.below(5) {
                    0 => Op::Setup(ch.below(2)),
                    1 => Op::SetProblem(ch.below(2)),
                    2 => Op::Construct {
                        budget: ch.pick(&[0, 1, 30, 100]),
                    },
                    _ => Op::Solve {
                        budget: ch.pick(&[0, 1, 50, 200]),
                    },
                });
            }
            c.ops = ops;
        }
        match ch.weighted(&[4.0, 2.0, 2.0, 1.0, 1.0, 1.0]) {
            0 => {}
            1 => {
                c.space_fail_at = Some(ch.below(12));
                c.fault_persists = ch.prob(0.4);
            }
            2 => {
                c.goal_fail_at = Some(ch.below(12));
                c.fault_persists = ch.prob(0.4);
                if ch.prob(0.5) {
                    c.goal_bias = 1.0;
                }
            }
            3 => {
                c.goal_bias = ch.pick(&[
                    -0.1,
                    1.0 + f64::EPSILON,
                    1.5,
                    f64::NAN,
                    f64::INFINITY,
                    f64::NEG_INFINITY,
                    -0.0,
                ])
            }
            4 => {
                if ch.prob(0.5) {
                    c.empty_starts = true
                } else {
                    let k = ch.below(c.problems.len());
                    c.problems[k].no_start = true;
                }
            }
            _ => {
                if ch.prob(0.5) {
                    c.step = ch.pick(&[0.0, -1.0, f64::NAN, f64::INFINITY, 1e-300]);
                } else {
                    c.radius = ch.pick(&[0.0, -1.0, f64::NAN, f64::INFINITY, 1e-300]);
                }
            }
        }
        c
    }
    fn enumerate(tier: Tier, emit: &mut dyn FnMut(PlanCase)) {
        let max_len = tier.pick(4, 6);
        for planner in ALL_PLANNERS {
            let alphabet: Vec<Op> = if planner == PlannerTag::PRM {
                vec![
                    Op::Setup(0),
                    Op::Setup(1),
                    Op::Construct { budget: 60 },
                    Op::SetProblem(1),
                    Op::Solve { budget: 150 },
                ]
            } else {
                vec![Op::Setup(0), Op::Setup(1), Op::Solve { budget: 150 }]
            };
            for kind in [KindTag::RV, KindTag::SE2] {
                // all sequences up to max_len
                let mut seqs: Vec<Vec<Op>> = vec![vec![]];
                for _ in 0..max_len {
                    let mut next = Vec::new();
                    for s in &seqs {
                        for o in &alphabet {
                            let mut t = s.clone();
                            t.push(o.clone());
                            next.push(t);
                        }
                    }
                    for s in &next {
                        let mut c = base_case(kind, planner);
                        c.ops = s.clone();
                        emit(c);
                    }
                    seqs = next;
                }
                // sampler faults at every k < 12
                let std_ops = if planner == PlannerTag::PRM {
                    vec![Op::Setup(0), Op::Construct { budget: 60 }, Op::Solve { budget: 150 }, Op::Solve { budget: 150 }]
                } else {
                    vec![Op::Setup(0), Op::Solve { budget: 150 }, Op::Solve { budget: 150 }]
                };
                for k in 0..12 {
                    let mut c = base_case(kind, planner);
                    c.ops = std_ops.clone();
                    c.space_fail_at = Some(k);
                    emit(c);
                    for bias in [0.3, 1.0] {
                        let mut c = base_case(kind, planner);
                        c.ops = std_ops.clone();
                        c.goal_bias = bias;
                        c.goal_fail_at = Some(k);
                        emit(c);
                    }
                }
                // the same faults persisting from the k-th call on
                for k in [0usize, 1, 2, 5] {
                    let mut c = base_case(kind, planner);
                    c.ops = std_ops.clone();
                    c.space_fail_at = Some(k);
                    c.fault_persists = true;
                    emit(c);
                    for bias in [0.3, 1.0] {
                        let mut c = base_case(kind, planner);
                        c.ops = std_ops.clone();
                        c.goal_bias = bias;
                        c.goal_fail_at = Some(k);
                        c.fault_persists = true;
                        emit(c);
                    }
                }
                if planner == PlannerTag::PRM {
                    for t in [-1.0, -1e-9, -0.0, 0.0, f64::NAN, f64::INFINITY, f64::NEG_INFINITY, 1e300] {
                        let mut c = base_case(kind, planner);
                        c.ops = std_ops.clone();
                        c.prm_timeout = Some(t);
                        emit(c);
                    }
                }
                for gb in [-0.1, 1.0 + f64::EPSILON, 1.5, f64::NAN, f64::INFINITY, f64::NEG_INFINITY] {
                    let mut c = base_case(kind, planner);
                    c.ops = std_ops.clone();
                    c.goal_bias = gb;
                    emit(c);
                }
                let mut c = base_case(kind, planner);
                c.ops = std_ops.clone();
                c.empty_starts = true;
                emit(c);
                for which in 0..2 {
                    let mut c = base_case(kind, planner);
                    c.problems[which].no_start = true;
                    c.ops = if planner == PlannerTag::PRM {
                        vec![Op::Setup(0), Op::Construct { budget: 60 }, Op::Solve { budget: 150 }, Op::Setup(1), Op::Construct { budget: 60 }, Op::Solve { budget: 150 }, Op::SetProblem(0), Op::Solve { budget: 150 }]
                    } else {
                        vec![Op::Setup(0), Op::Solve { budget: 150 }, Op::Setup(1), Op::Solve { budget: 150 }, Op::Setup(0), Op::Solve { budget: 150 }]
                    };
                    emit(c);
                }
                for v in [0.0, -1.0, f64::NAN, f64::INFINITY] {
                    let mut c = base_case(kind, planner);
                    c.ops = std_ops.clone();
                    c.step = v;
                    emit(c);
                    let mut c = base_case(kind, planner);
                    c.ops = std_ops.clone();
                    c.radius = v;
                    emit(c);
                }
                // zero-sample roadmap
                let mut c = base_case(kind, planner);
                c.ops = vec![Op::Setup(0), Op::Construct { budget: 0 }, Op::Solve { budget: 10 }];
                emit(c);
                // start outside the bounds / invalid start
                let mut c = base_case(kind, planner);
                c.problems[0].start[0] = 5.0;
                c.ops = std_ops.clone();
                emit(c);
                let mut c = base_case(kind, planner);
                c.problems[0].start[0] = 0.0;
                c.problems[0].start[1] = 0.0;
                c.ops = std_ops.clone();
                emit(c);
            }
        }
    }
    fn enumeration_is_exhaustive(_tier: Tier) -> bool {
        true
    }
    fn check(case: &PlanCase, ctx: &mut Ctx) {
        match run_case_dyn(case) {
            Err(e) => ctx.discard(format!("unbuildable: {e}")),
            Ok(trace) => {
                common_labels(case, &trace, ctx);
                ctx.panicked = false;
                c08_oracle(case, &trace, ctx);
            }
        }
    }
}

/// "Well-formed inputs never panic": the well-formed generators of the path checks, unchanged.
pub struct C08WellFormed;
impl Prop for C08WellFormed {
    type Case = PlanCase;
    const ID: &'static str = "C08";
    const PART: &'static str = "well-formed-never-panics";
    const RULE: &'static str = "the planner-case generators of C01-C05 and C07 (well-formed worlds, parameters in range, histories that start with setup) run unchanged; any unwinding is a violation. Non-trivial = a case whose solve ran at least one iteration.";
    fn random_cases(tier: Tier) -> usize {
        tier.pick(8_000, 80_000)
    }
    fn gen(ch: &mut Ch, _tier: Tier) -> PlanCase {
        let prof = Profile {
            histories: ch.prob(0.5),
            p_marginal_start: 0.1,
            p_goal_blocked: 0.1,
            p_goal_overlap: 0.1,
            bounds: if ch.prob(0.5) { BoundsMode::Bounded } else { BoundsMode::BoundedConvex },
            rng_goal: 0.5,
            seam_bias: 0.2,
            budget_scale: 0.5,
            ..Default::default()
        };
        gen_plan_case(ch, &prof)
    }
    fn check(case: &PlanCase, ctx: &mut Ctx) {
        let pname = planner_name(case.planner);
        match run_case_dyn(case) {
            Err(e) => ctx.discard(format!("unbuildable: {e}")),
            Ok(trace) => {
                common_labels(case, &trace, ctx);
                ctx.panicked = false;
                for (i, st) in trace.steps.iter().enumerate() {
                    if let Res::Panic { msg, loc } = &st.res {
                        if msg.starts_with(crate::wrap::HARNESS_ABORT) {
                            continue;
                        }
                        ctx.fail(
                            format!("C08:panic-on-well-formed-input:{pname}:{}:{}@{}", op_name(&st.op), msg_class(msg), file_of(loc)),
                            format!("step {i} ({:?}) panicked: {msg} at {loc}", st.op),
                        );
                    }
                }
                ctx.nontrivial = trace.steps.iter().any(|s| s.ticks > 0);
            }
        }
    }
}
