//! C11 — sampling, enforcing and checking bounds agree.

use super::lattice::{so2_values, so3_values};
use crate::choice::Ch;
use crate::exec::guarded;
use crate::flat::*;
use crate::gen::*;
use crate::runner::*;
use oxmpl::base::error::StateSamplingError;
use oxmpl::base::space::StateSpace;
use rand::{rngs::StdRng, SeedableRng};
use serde::{Deserialize, Serialize};
use std::f64::consts::PI;

#[derive(Clone, Debug, Serialize, Deserialize)]
pub struct BoundsCase {
    pub space: SpaceCfg,
    /// arbitrary (possibly out-of-bounds, non-canonical, non-unit) state
    pub x: Vec<f64>,
    pub seed: u64,
}

fn cheap_to_sample(cfg: &SpaceCfg) -> bool {
    cfg.comps.iter().all(|c| match c {
        Comp::SO3 {
            bounds: Some((_, a)),
        } => *a < 1e-9 || *a >= 0.05,
        _ => true,
    })
}

/// First unbounded dimension as the component-local index the error reports.
fn first_unbounded(cfg: &SpaceCfg) -> Option<usize> {
    for c in &cfg.comps {
        if let Comp::RV { dim, bounds } = c {
            match bounds {
                None => {
                    if *dim > 0 {
                        return Some(0);
                    }
                }
                Some(b) => {
                    for (i, (lo, hi)) in b.iter().enumerate() {
                        if !lo.is_finite() || !hi.is_finite() {
                            return Some(i);
                        }
                    }
                }
            }
        }
    }
    None
}

fn ulps_apart(a: f64, b: f64) -> f64 {
    if a == b {
        return 0.0;
    }
    let u = ulp(a.abs().max(b.abs()));
    (a - b).abs() / u
}

fn approx_components(a: &[f64], b: &[f64], max_ulps: f64) -> bool {
    a.len() == b.len()
        && a.iter()
            .zip(b)
            .all(|(x, y)| ulps_apart(*x, *y) <= max_ulps || (x - y).abs() <= 1e-300)
}

enum Cmp {
    Same,
    /// differs only in SO3 components, on the cone boundary (within 2e-6 rad), by < 1e-6
    So3Rounding,
    Different,
}
/// RV: equal to 4 ulp or the documented containment tolerance (f64::EPSILON); SO2: equal as
/// configurations; SO3: equal to 4 ulp.
fn compare_states(cfg: &SpaceCfg, a: &[f64], b: &[f64]) -> Cmp {
    let mut o = 0;
    let mut res = Cmp::Same;
    for c in &cfg.comps {
        let n = c.width();
        let (x, y) = (&a[o..o + n], &b[o..o + n]);
        match c {
            Comp::RV { .. } => {
                if !x
                    .iter()
                    .zip(y)
                    .all(|(p, q)| ulps_apart(*p, *q) <= 4.0 || (p - q).abs() <= f64::EPSILON)
                {
                    return Cmp::Different;
                }
            }
            Comp::SO2 { .. } => {
                if !(approx_components(x, y, 4.0) || ref_so2_distance(x[0], y[0]) <= 4.0 * f64::EPSILON * PI) {
                    return Cmp::Different;
                }
            }
            Comp::SO3 { bounds } => {
                if !approx_components(x, y, 4.0) {
                    let near = match bounds {
                        Some((q, ang)) => (ref_so3_distance(q, x) - ang.min(PI)).abs() <= 2e-6,
                        None => false,
                    };
                    if near && x.iter().zip(y).all(|(p, q)| (p - q).abs() <= 1e-6) {
                        res = Cmp::So3Rounding;
                    } else {
                        return Cmp::Different;
                    }
                }
            }
        }
        o += n;
    }
    res
}

/// canonical: angles numerically inside [-pi, pi]; quaternions unit within 1e-12
fn canonical(cfg: &SpaceCfg, v: &[f64]) -> Result<(), String> {
    let mut o = 0;
    for c in &cfg.comps {
        let n = c.width();
        match c {
            Comp::SO2 { bounds } => {
                let (lo, hi) = bounds.unwrap_or((-PI, PI));
                let (lo, hi) = (lo.max(-PI), hi.min(PI));
                if !(v[o] >= lo - 1e-12 && v[o] <= hi + 1e-12) {
                    return Err(format!(
                        "angle {:e} is not numerically inside the stored interval [{lo:e}, {hi:e}]",
                        v[o]
                    ));
                }
            }
            Comp::SO3 { .. } => {
                let nn = quat_norm(&v[o..o + 4]);
                if !((nn - 1.0).abs() <= 1e-12) {
                    return Err(format!("quaternion norm {nn:e} != 1"));
                }
            }
            _ => {}
        }
        o += n;
    }
    Ok(())
}

fn check_k<K: Kind>(case: &BoundsCase, ctx: &mut Ctx) {
    let cfg = &case.space;
    let sp = match K::build(cfg) {
        Ok(s) => s,
        Err(e) => {
            ctx.discard(format!("not constructible: {e}"));
            return;
        }
    };
    let kind = format!("{:?}", cfg.kind);
    ctx.label(format!("kind:{kind}"));
    // ---- sampling -----------------------------------------------------------------------
    if cheap_to_sample(cfg) {
        let r = guarded(|| {
            let mut rng = StdRng::seed_from_u64(case.seed);
            let mut v = Vec::new();
            for _ in 0..3 {
                v.push(sp.sample_uniform(&mut rng));
            }
            v
        });
        match r {
            Err((msg, loc)) => ctx.fail(
                format!("C11:{kind}:sample-panic"),
                format!("sample_uniform panicked: {msg} at {loc}"),
            ),
            Ok(v) => {
                for res in v {
                    match res {
                        Ok(s) => {
                            let f = K::enc(&s);
                            if first_unbounded(cfg).is_some() {
                                ctx.fail(
                                    format!("C11:{kind}:sampled-unbounded"),
                                    format!("sample_uniform returned {f:?} although a dimension is unbounded"),
                                );
                            }
                            if !sp.satisfies_bounds(&s) {
                                let (comps, rounding) = rejecting_components(cfg, &f);
                                let sig = if rounding {
                                    SO3_ROUNDING_SIG.to_string()
                                } else {
                                    format!("C11:{kind}:sample-fails-own-bounds-check{comps}")
                                };
                                ctx.fail(sig, format!("sample {f:?} is rejected by satisfies_bounds"));
                            }
                            if !ref_in_bounds(cfg, &f, 1e-9) || canonical(cfg, &f).is_err() {
                                ctx.fail(
                                    format!("C11:{kind}:sample-out-of-bounds"),
                                    format!("sample {f:?} is outside the bounds by the reference membership / not canonical"),
                                );
                            }
                            ctx.label("sampled");
                        }
                        Err(StateSamplingError::UnboundedDimension { dimension_index }) => {
                            match first_unbounded(cfg) {
                                Some(i) if i == dimension_index => ctx.label("unbounded-error"),
                                other => ctx.fail(
                                    format!("C11:{kind}:wrong-unbounded-error"),
                                    format!("UnboundedDimension{{{dimension_index}}} but first unbounded dimension is {other:?}"),
                                ),
                            }
                        }
                        Err(e) => ctx.fail(
                            format!("C11:{kind}:unexpected-sampling-error"),
                            format!("sample_uniform returned Err({e:?}) on a constructible space"),
                        ),
                    }
                }
            }
        }
    } else {
        ctx.label("sampling-skipped-tiny-cone");
    }
    // ---- enforce / satisfies --------------------------------------------------------------
    let x = K::dec(cfg, &case.x);
    let r = guarded(|| {
        let sat_x = sp.satisfies_bounds(&x);
        let mut e = x.clone();
        sp.enforce_bounds(&mut e);
        let sat_e = sp.satisfies_bounds(&e);
        let mut e2 = e.clone();
        sp.enforce_bounds(&mut e2);
        (sat_x, K::enc(&e), sat_e, K::enc(&e2))
    });
    let (sat_x, e, sat_e, e2) = match r {
        Err((msg, loc)) => {
            ctx.fail(
                format!("C11:{kind}:bounds-op-panic"),
                format!("enforce_bounds/satisfies_bounds panicked on {:?}: {msg} at {loc}", case.x),
            );
            return;
        }
        Ok(t) => t,
    };
    if !sat_e {
        // which component rejects?
        let (comps, rounding) = rejecting_components(cfg, &e);
        ctx.fail(
            if rounding {
                SO3_ROUNDING_SIG.to_string()
            } else {
                format!("C11:{kind}:enforced-state-fails-bounds-check{comps}")
            },
            format!("x = {:?} -> enforce_bounds -> {e:?}, which satisfies_bounds rejects", case.x),
        );
    }
    if !ref_in_bounds(cfg, &e, 1e-9) {
        let offs: Vec<usize> = super::paths::offending_components(cfg, &e, 1e-9);
        if !offs.is_empty() {
            ctx.fail(
                format!("C11:{kind}:enforced-state-out-of-bounds"),
                format!("x = {:?} -> enforce_bounds -> {e:?}, outside the bounds (reference) in components {offs:?}", case.x),
            );
        }
    }
    if let Err(why) = canonical(cfg, &e) {
        let so2 = why.starts_with("angle");
        ctx.fail(
            format!("C11:{kind}:enforced-state-not-canonical:{}", if so2 { "angle" } else { "quaternion" }),
            format!("x = {:?} -> enforce_bounds -> {e:?}: {why}", case.x),
        );
    }
    // idempotence and "leaves satisfying canonical states unchanged"
    let x_canonical = canonical(cfg, &case.x).is_ok();
    let mut pairs: Vec<(&str, &[f64], &[f64], String)> = vec![(
        "enforce-not-idempotent",
        &e,
        &e2,
        format!("enforce(x) = {e:?} but enforce(enforce(x)) = {e2:?}"),
    )];
    if sat_x && x_canonical {
        pairs.push((
            "enforce-moves-satisfying-state",
            &case.x,
            &e,
            format!("x = {:?} satisfies the bounds and is canonical but enforce_bounds changed it to {e:?}", case.x),
        ));
    }
    for (what, p, q, detail) in pairs {
        match compare_states(cfg, p, q) {
            Cmp::Same => {}
            // A state within rounding noise of the cone's accept/reject threshold can be accepted
            // by one call and, after re-normalisation moved its last bit, projected by the next
            // (found once in 3.4e6 thorough cases, for a 2e-7 rad cone). That is floating-point
            // behaviour at a decision threshold, not a broken property: differences confined to
            // SO3 components of a state within 2e-6 rad of the cone boundary and below 1e-6 are
            // accepted for these two clauses (enforce => satisfies stays strict).
            Cmp::So3Rounding => {
                let _ = detail;
                ctx.label("so3-threshold-rounding(accepted)");
            }
            Cmp::Different => ctx.fail(format!("C11:{kind}:{what}"), detail),
        }
    }
    let nondefault = cfg.comps.iter().any(|c| match c {
        Comp::RV { bounds, .. } => bounds.is_some(),
        Comp::SO2 { bounds } => bounds.is_some(),
        Comp::SO3 { bounds } => bounds.is_some(),
    });
    if !sat_x {
        ctx.label("x-out-of-bounds");
    }
    if !x_canonical {
        ctx.label("x-non-canonical");
    }
    ctx.nontrivial = nondefault && (!sat_x || !x_canonical);
}

/// Which components' own `satisfies_bounds` reject the flat state, and is every rejection an
/// SO3 containment miss at rounding level (state within 2e-6 rad of the cone boundary)?
fn rejecting_components(cfg: &SpaceCfg, e: &[f64]) -> (String, bool) {
    let mut o = 0;
    let mut out = String::new();
    let mut any = false;
    let mut all_so3_rounding = true;
    for (c, f) in cfg.comps.iter().zip(&cfg.fracs) {
        let n = c.width();
        let v = &e[o..o + n];
        let (t, rejected) = match c {
            Comp::RV { .. } => (
                "RV",
                build_rv(c, *f).map(|s| !s.satisfies_bounds(&KRV::dec(cfg, v))).unwrap_or(false),
            ),
            Comp::SO2 { .. } => (
                "SO2",
                build_so2(c, *f).map(|s| !s.satisfies_bounds(&KSO2::dec(cfg, v))).unwrap_or(false),
            ),
            Comp::SO3 { .. } => (
                "SO3",
                build_so3(c, *f).map(|s| !s.satisfies_bounds(&KSO3::dec(cfg, v))).unwrap_or(false),
            ),
        };
        if rejected {
            any = true;
            out.push(':');
            out.push_str(t);
            let rounding = match c {
                Comp::SO3 { bounds: Some((q, a)) } => {
                    let miss = ref_so3_distance(q, v) - a.min(PI);
                    miss <= 2e-6 && (quat_norm(v) - 1.0).abs() <= 1e-12
                }
                _ => false,
            };
            if !rounding {
                all_so3_rounding = false;
            }
        }
        o += n;
    }
    (out, any && all_so3_rounding)
}

const SO3_ROUNDING_SIG: &str = "C11:SO3-containment-has-no-tolerance(rounding-level-miss)";

/// Arbitrary state for a component, including the failure-prone ones.
fn gen_wild_comp_state(ch: &mut Ch, c: &Comp) -> Vec<f64> {
    match c {
        Comp::RV { dim, bounds } => (0..*dim)
            .map(|i| {
                let (lo, hi) = bounds
                    .as_ref()
                    .map(|b| b[i])
                    .unwrap_or((f64::NEG_INFINITY, f64::INFINITY));
                match ch.weighted(&[3.0, 1.0, 1.0, 1.0, 1.0, 1.0]) {
                    0 => {
                        if lo.is_finite() && hi.is_finite() {
                            ch.range(lo, hi)
                        } else {
                            ch.range(-100.0, 100.0)
                        }
                    }
                    1 => {
                        if lo.is_finite() {
                            ch.pick(&[lo, next_down(lo), next_up(lo), lo - 1.0])
                        } else {
                            -1e300
                        }
                    }
                    2 => {
                        if hi.is_finite() {
                            ch.pick(&[hi, next_down(hi), next_up(hi), hi + 1.0])
                        } else {
                            1e300
                        }
                    }
                    3 => ch.range(-1.0, 1.0) * 1e6,
                    4 => ch.pick(&[0.0, -0.0, 1e-300, -1e300, 1e300]),
                    _ => ch.range(-10.0, 10.0),
                }
            })
            .collect(),
        Comp::SO2 { bounds } => {
            let (lo, hi) = bounds.unwrap_or((-PI, PI));
            vec![match ch.weighted(&[3.0, 2.0, 2.0, 2.0]) {
                0 => ch.range(-PI, PI),
                1 => ch.pick(&so2_values()),
                2 => ch.pick(&[
                    lo,
                    hi,
                    next_up(lo),
                    next_down(lo),
                    next_up(hi),
                    next_down(hi),
                    lo + 2.0 * PI,
                    hi - 2.0 * PI,
                ]),
                _ => ch.range(-30.0, 30.0),
            }]
        }
        Comp::SO3 { bounds } => match ch.weighted(&[4.0, 1.0, 1.0, 1.0, 2.0]) {
            0 => gen_unit_quat(ch).to_vec(),
            1 => ch.pick(&so3_values()).to_vec(),
            2 => {
                // non-unit
                let q = gen_unit_quat(ch);
                let s = ch.pick(&[2.0, 0.5, 1e-3, 1e3, 1e-8, 2.0, 0.5, 1e160, 1e200, 1e-160, 1e-200]);
                q.iter().map(|x| x * s).collect()
            }
            3 => vec![0.0, 0.0, 0.0, 0.0],
            _ => {
                // on / near the cone boundary
                match bounds {
                    Some((c, a)) => {
                        let ang = (a.min(PI) * ch.pick(&[1.0, 1.0 + 1e-12, 1.0 - 1e-12, 1.001, 0.999, 1.5]))
                            .min(PI);
                        quat_at_angle(ch, c, ang).to_vec()
                    }
                    None => gen_unit_quat(ch).to_vec(),
                }
            }
        },
    }
}

/// Constructible bound settings, including extreme ones.
fn gen_wild_space(ch: &mut Ch, kind: KindTag) -> SpaceCfg {
    let mut cfg = gen_space(ch, kind, BoundsMode::Any, false);
    for c in cfg.comps.iter_mut() {
        match c {
            Comp::RV { dim, bounds } => {
                if ch.prob(0.3) {
                    // half-bounded / tiny / huge boxes
                    let mut b = Vec::new();
                    for _ in 0..*dim {
                        b.push(match ch.below(5) {
                            0 => (f64::NEG_INFINITY, ch.range(-5.0, 5.0)),
                            1 => (ch.range(-5.0, 5.0), f64::INFINITY),
                            2 => {
                                let lo = ch.range(-1.0, 1.0);
                                (lo, next_up(lo))
                            }
                            3 => (-1e100, 1e100),
                            _ => (-1.0, 1.0),
                        });
                    }
                    *bounds = Some(b);
                }
            }
            Comp::SO2 { bounds } => {
                if ch.prob(0.4) {
                    *bounds = Some(match ch.below(8) {
                        // intervals that touch [-pi, pi] from outside at one point (the
                        // constructor must reject them; if it does not, they must still work)
                        6 => ch.pick(&[(PI, 4.0), (-4.0, -PI), (PI, f64::INFINITY), (f64::NEG_INFINITY, -PI)]),
                        7 => (next_down(PI), 4.0),
                        0 => (-4.0, 4.0),
                        1 => (-PI, PI),
                        2 => (-5.0, ch.range(-3.0, 3.0)),
                        3 => (ch.range(-3.0, 3.0), 5.0),
                        4 => {
                            let lo = ch.range(-3.0, 3.0);
                            (lo, lo + 1e-9)
                        }
                        _ => (next_up(-PI), next_down(PI)),
                    });
                }
            }
            Comp::SO3 { bounds } => {
                if ch.prob(0.5) {
                    let c = if ch.prob(0.2) {
                        let q = gen_unit_quat(ch);
                        [-q[0], -q[1], -q[2], -q[3]]
                    } else {
                        gen_unit_quat(ch)
                    };
                    let a = match ch.below(6) {
                        0 => 0.0,
                        1 => 1e-10,
                        2 => ch.range(0.05, PI),
                        3 => PI,
                        4 => ch.log_range(1e-8, 0.05),
                        _ => 4.0,
                    };
                    *bounds = Some((c, a));
                }
            }
        }
    }
    cfg
}

pub struct C11;
impl Prop for C11 {
    type Case = BoundsCase;
    const ID: &'static str = "C11";
    const PART: &'static str = "bounds-ops";
    const RULE: &'static str = "proptest choice sequences -> constructible bound settings of a random kind (boxes incl. half-bounded, one-ulp wide and 1e100 wide; SO2 intervals inside, touching and partly outside [-pi,pi]; SO3 cones of radius 0, 1e-10, (1e-8, pi], > pi with arbitrary (also negated) centres; compounds) x an arbitrary state per component (inside, on the boundary +-ulp, far outside, non-canonical angle, non-unit (scaled by 1e-200 .. 1e200) / zero quaternion) x a sampler seed (3 draws). Sampling is skipped for cones with 1e-9 <= radius < 0.05 (cost of rejection sampling). Non-trivial = a space with non-default bounds and an input that is out of bounds or non-canonical.";
    fn random_cases(tier: Tier) -> usize {
        tier.pick(2_400_000, 8_000_000)
    }
    fn gen(ch: &mut Ch, _tier: Tier) -> BoundsCase {
        let kind = ch.pick(&ALL_KINDS);
        let space = gen_wild_space(ch, kind);
        let mut x = Vec::new();
        for c in &space.comps {
            x.extend(gen_wild_comp_state(ch, c));
        }
        BoundsCase {
            space,
            x,
            seed: ch.seed(),
        }
    }
    fn check(case: &BoundsCase, ctx: &mut Ctx) {
        crate::with_kind!(case.space.kind, check_k, case, ctx)
    }
}
