//! C09 — distance is a metric on each state space.

use super::lattice::*;
use crate::choice::Ch;
use crate::flat::*;
use crate::gen::*;
use crate::runner::*;
use oxmpl::base::space::StateSpace;
use serde::{Deserialize, Serialize};
use std::f64::consts::PI;

#[derive(Clone, Debug, Serialize, Deserialize)]
pub struct MetricCase {
    pub space: SpaceCfg,
    pub a: Vec<f64>,
    pub b: Vec<f64>,
    pub c: Vec<f64>,
    /// a different representation of the configuration `a` (angles + 2 pi k, quaternions negated)
    pub a_equiv: Option<Vec<f64>>,
    /// factor applied to all weights (compound kinds) for the scaling law
    pub wscale: f64,
}

pub fn has_rv_underflow_floor(cfg: &SpaceCfg) -> f64 {
    // naive sum of squares underflows below ~1.5e-154 per coordinate: absolute floor
    cfg.comps
        .iter()
        .zip(&cfg.weights)
        .map(|(c, w)| match c {
            Comp::RV { dim, .. } => 2e-154 * (*dim as f64) * w.abs().max(1.0),
            _ => 0.0,
        })
        .sum()
}

/// Is this pair in a "hard" class? (labels only)
pub fn hard_classes(cfg: &SpaceCfg, a: &[f64], b: &[f64]) -> Vec<&'static str> {
    let mut out = Vec::new();
    let mut o = 0;
    for c in &cfg.comps {
        let n = c.width();
        let (x, y) = (&a[o..o + n], &b[o..o + n]);
        match c {
            Comp::RV { .. } => {
                if x.iter().chain(y.iter()).any(|v| v.abs() > 1e6) {
                    out.push("rv-large");
                }
            }
            Comp::SO2 { .. } => {
                if x[0].abs() > PI || y[0].abs() > PI {
                    out.push("so2-noncanonical");
                }
                let (p, q) = (wrap_pi(x[0]), wrap_pi(y[0]));
                if (p - q).abs() > PI {
                    out.push("so2-across-seam");
                }
                if (ref_so2_distance(x[0], y[0]) - PI).abs() < 1e-9 {
                    out.push("so2-antipodal");
                }
            }
            Comp::SO3 { .. } => {
                let dot: f64 = (0..4).map(|i| x[i] * y[i]).sum();
                if dot < 0.0 {
                    out.push("so3-negative-dot");
                }
                if dot.abs() < 1e-3 {
                    out.push("so3-dot-near-0");
                }
                if dot.abs() > 0.9995 && dot.abs() < 1.0 - 1e-12 {
                    out.push("so3-dot-above-switch");
                }
                if (dot.abs() - 0.9995).abs() < 1e-3 {
                    out.push("so3-dot-near-switch");
                }
            }
        }
        o += n;
    }
    out
}

fn diameter(cfg: &SpaceCfg) -> Option<f64> {
    let mut s = 0.0;
    for (c, w) in cfg.comps.iter().zip(&cfg.weights) {
        match c {
            Comp::RV { .. } => return None,
            _ => s += (PI * w) * (PI * w),
        }
    }
    Some(s.sqrt())
}

fn check_k<K: Kind>(case: &MetricCase, ctx: &mut Ctx) {
    let cfg = &case.space;
    let sp = match K::build(cfg) {
        Ok(s) => s,
        Err(e) => {
            ctx.discard(format!("build: {e}"));
            return;
        }
    };
    let (a, b, c) = (
        K::dec(cfg, &case.a),
        K::dec(cfg, &case.b),
        K::dec(cfg, &case.c),
    );
    let d = |x: &K::S, y: &K::S| sp.distance(x, y);
    let (dab, dba, dbc, dac, daa) = (d(&a, &b), d(&b, &a), d(&b, &c), d(&a, &c), d(&a, &a));
    let floor = has_rv_underflow_floor(cfg);
    let tab = dist_tol(cfg, &case.a, &case.b) + floor;
    let tbc = dist_tol(cfg, &case.b, &case.c) + floor;
    let tac = dist_tol(cfg, &case.a, &case.c) + floor;
    let taa = dist_tol(cfg, &case.a, &case.a) + floor;
    let kind = format!("{:?}", cfg.kind);
    for (name, v) in [("d(a,b)", dab), ("d(b,a)", dba), ("d(b,c)", dbc), ("d(a,c)", dac), ("d(a,a)", daa)] {
        if v.is_nan() || v < 0.0 {
            ctx.fail(
                format!("C09:{kind}:negative-or-nan"),
                format!("{name} = {v:e}"),
            );
            return;
        }
    }
    if daa > taa {
        ctx.fail(
            format!("C09:{kind}:self-distance"),
            format!("d(a,a) = {daa:e} > tol {taa:e}"),
        );
    }
    if (dab - dba).abs() > tab {
        ctx.fail(
            format!("C09:{kind}:asymmetric"),
            format!("d(a,b) = {dab:e}, d(b,a) = {dba:e}, tol {tab:e}"),
        );
    }
    if dac > dab + dbc + tab + tbc + tac {
        ctx.fail(
            format!("C09:{kind}:triangle"),
            format!(
                "d(a,c) = {dac:e} > d(a,b) + d(b,c) = {:e} (+tol {:e})",
                dab + dbc,
                tab + tbc + tac
            ),
        );
    }
    let rab = ref_distance(cfg, &case.a, &case.b);
    if (dab - rab).abs() > tab {
        ctx.fail(
            format!("C09:{kind}:reference-mismatch"),
            format!("d(a,b) = {dab:e}, reference = {rab:e}, tol {tab:e}"),
        );
    }
    if let Some(diam) = diameter(cfg) {
        // exact for the single SO(2)/SO(3) kinds; one rounding of slack for the recombination
        let slack = if cfg.comps.len() == 1 { 0.0 } else { 4.0 * f64::EPSILON * diam };
        for v in [dab, dbc, dac] {
            if v > diam + slack {
                ctx.fail(
                    format!("C09:{kind}:exceeds-diameter"),
                    format!("distance {v:e} > diameter {diam:e}"),
                );
            }
        }
    }
    if let Some(ae) = &case.a_equiv {
        let a2 = K::dec(cfg, ae);
        let d2 = d(&a2, &b);
        let t = tab + dist_tol(cfg, ae, &case.b) + floor;
        if (d2 - dab).abs() > t {
            ctx.fail(
                format!("C09:{kind}:representation-dependent"),
                format!("d(a,b) = {dab:e} but d(a',b) = {d2:e} for equivalent a' (tol {t:e})"),
            );
        }
        ctx.label("with-equivalent-representation");
    }
    if cfg.comps.len() > 1 || cfg.kind == KindTag::CS {
        if case.wscale != 1.0 {
            let mut cfg2 = cfg.clone();
            for w in cfg2.weights.iter_mut() {
                *w *= case.wscale;
            }
            // SE2/SE3 constructors fix the translation weight to 1: scale through the compound
            cfg2.kind = KindTag::CS;
            let mut cfg1 = cfg.clone();
            cfg1.kind = KindTag::CS;
            if let (Ok(s1), Ok(s2)) = (KCS::build(&cfg1), KCS::build(&cfg2)) {
                let (x, y) = (KCS::dec(&cfg1, &case.a), KCS::dec(&cfg1, &case.b));
                let (d1, d2) = (s1.distance(&x, &y), s2.distance(&x, &y));
                if d1.is_finite() && d2.is_finite() {
                    let want = d1 * case.wscale;
                    if (d2 - want).abs() > 1e-13 * want.abs() + floor * case.wscale.max(1.0) {
                        ctx.fail(
                            format!("C09:{kind}:weight-scaling"),
                            format!("weights x {} : distance {d2:e}, expected {want:e}", case.wscale),
                        );
                    }
                }
            }
        }
    }
    let distinct = !bits_eq(&case.a, &case.b) && !bits_eq(&case.b, &case.c) && !bits_eq(&case.a, &case.c);
    let mut hard = hard_classes(cfg, &case.a, &case.b);
    hard.extend(hard_classes(cfg, &case.b, &case.c));
    hard.extend(hard_classes(cfg, &case.a, &case.c));
    hard.sort();
    hard.dedup();
    ctx.label(format!("kind:{kind}"));
    for h in &hard {
        ctx.label(*h);
    }
    ctx.nontrivial = distinct && !hard.is_empty();
}

pub fn equivalent_repr(ch: &mut Ch, cfg: &SpaceCfg, a: &[f64]) -> Vec<f64> {
    let mut out = a.to_vec();
    let mut o = 0;
    for c in &cfg.comps {
        let n = c.width();
        match c {
            Comp::RV { .. } => {}
            Comp::SO2 { .. } => {
                let k = ch.pick(&[1.0, -1.0, 2.0, -3.0, 10.0, 1000.0]);
                out[o] = a[o] + 2.0 * PI * k;
            }
            Comp::SO3 { .. } => {
                for i in 0..4 {
                    out[o + i] = -a[o + i];
                }
            }
        }
        o += n;
    }
    out
}

/// Random state: in bounds of an unbounded-ish configuration, optionally non-canonical.
pub fn gen_any_state(ch: &mut Ch, cfg: &SpaceCfg) -> Vec<f64> {
    let mut v = Vec::new();
    for c in &cfg.comps {
        match c {
            Comp::RV { dim, .. } => {
                let scale = ch.pick(&[1.0, 1.0, 100.0, 1e-3, 1e6, 1e100]);
                for _ in 0..*dim {
                    v.push(ch.range(-1.0, 1.0) * scale);
                }
            }
            Comp::SO2 { .. } => {
                let x = match ch.weighted(&[5.0, 2.0, 1.0, 1.0]) {
                    0 => ch.range(-PI, PI),
                    1 => ch.range(-20.0, 20.0),
                    2 => ch.pick(&so2_values()),
                    _ => ch.range(-1.0, 1.0) * 1e5,
                };
                v.push(x);
            }
            Comp::SO3 { .. } => v.extend(gen_unit_quat(ch)),
        }
    }
    v
}

/// b near a: reference interpolation a -> x at a tiny parameter.
pub fn gen_near(ch: &mut Ch, cfg: &SpaceCfg, a: &[f64]) -> Vec<f64> {
    let far = gen_any_state(ch, cfg);
    let t = ch.log_range(1e-9, 1e-1);
    // work on canonical angles; reference interpolation normalises
    ref_interpolate(cfg, a, &far, t)
}

pub struct C09;
impl Prop for C09 {
    type Case = MetricCase;
    const ID: &'static str = "C09";
    const PART: &'static str = "metric";
    const RULE: &'static str = "lattice: all ordered triples over a per-kind lattice of special states (seam, +-pi+-ulp, multiples of pi/2, non-canonical angles up to 1e300, antipodal / near-identical quaternions, dot products at 0 and at the 0.9995 switch, +-0, 1e-300, 1e150), enumerated exhaustively; random: proptest choice sequences -> (space of a random kind/layout/weights, three states, 50% with b near a, 50% with an equivalent representation of a). Non-trivial = three pairwise non-bit-identical states with at least one pair in a hard class (across the seam, antipodal, non-canonical angle, negative / near-0 / near-switch quaternion dot, |x|>1e6).";
    fn random_cases(tier: Tier) -> usize {
        tier.pick(3_000_000, 12_000_000)
    }
    fn gen(ch: &mut Ch, _tier: Tier) -> MetricCase {
        let kind = ch.pick(&ALL_KINDS);
        let mut space = gen_space(ch, kind, BoundsMode::Any, false);
        if ch.prob(0.1) && space.comps.len() > 1 {
            let i = ch.below(space.weights.len());
            if !(matches!(kind, KindTag::SE2 | KindTag::SE3) && i == 0) {
                space.weights[i] = ch.pick(&[0.0, 1e-6, 1e3]);
            }
        }
        let a = gen_any_state(ch, &space);
        let b = match ch.weighted(&[4.0, 4.0, 1.0]) {
            0 => gen_near(ch, &space, &a),
            1 => gen_any_state(ch, &space),
            // the same configuration in another representation (-q, angle + 2 pi k): d must be ~0
            _ => equivalent_repr(ch, &space, &a),
        };
        let c = if ch.prob(0.3) {
            gen_near(ch, &space, &b)
        } else {
            gen_any_state(ch, &space)
        };
        let a_equiv = if ch.prob(0.5) {
            Some(equivalent_repr(ch, &space, &a))
        } else {
            None
        };
        let wscale = ch.pick(&[1.0, 2.0, 0.5, 1e3, 3.0]);
        MetricCase {
            space,
            a,
            b,
            c,
            a_equiv,
            wscale,
        }
    }
    fn enumerate(tier: Tier, emit: &mut dyn FnMut(MetricCase)) {
        for (cfg, states) in lattices(tier == Tier::Thorough) {
            let n = states.len();
            for i in 0..n {
                for j in 0..n {
                    for k in 0..n {
                        // quick tier: sub-sample the third index for the big lattices
                        if tier == Tier::Quick && n > 24 && (i + j + k) % 3 != 0 {
                            continue;
                        }
                        emit(MetricCase {
                            space: cfg.clone(),
                            a: states[i].clone(),
                            b: states[j].clone(),
                            c: states[k].clone(),
                            a_equiv: None,
                            wscale: 2.0,
                        });
                    }
                }
            }
        }
    }
    fn enumeration_is_exhaustive(tier: Tier) -> bool {
        tier == Tier::Thorough
    }
    fn check(case: &MetricCase, ctx: &mut Ctx) {
        crate::with_kind!(case.space.kind, check_k, case, ctx)
    }
}
