//! Prop wrappers for C15 (tree well-formedness), C16 (per-iteration transition) and C17 (RRT*
//! cost bookkeeping): bounded-exhaustive scripted exploration + long random single-step runs.

use super::explore::*;
use super::paths::{common_labels, planner_name};
use super::plan::*;
use super::trees::*;
use crate::choice::Ch;
use crate::exec::*;
use crate::flat::*;
use crate::runner::*;
use crate::gen::approx_extent;
use crate::world::Obst;

const TREE_PLANNERS: [PlannerTag; 3] = [PlannerTag::RRT, PlannerTag::RRTConnect, PlannerTag::RRTStar];

macro_rules! explore_prop {
    ($name:ident, $id:expr, $which:expr, $planners:expr, $rule:expr, $hang:expr) => {
        pub struct $name;
        impl Prop for $name {
            type Case = Root;
            const ID: &'static str = $id;
            const PART: &'static str = "scripted-bounded-exhaustive";
            const RULE: &'static str = $rule;
            const HANG_IS_VIOLATION: bool = $hang;
            const WATCHDOG_S: u64 = 60;
            fn random_cases(_tier: Tier) -> usize {
                0
            }
            fn gen(_ch: &mut Ch, _tier: Tier) -> Root {
                unreachable!()
            }
            fn enumerate(tier: Tier, emit: &mut dyn FnMut(Root)) {
                enumerate_roots(tier.pick(5, 6), &$planners, emit);
            }
            fn enumeration_is_exhaustive(_tier: Tier) -> bool {
                true
            }
            fn check(root: &Root, ctx: &mut Ctx) {
                explore_prop_check(root, $which, ctx);
            }
        }
    };
}

explore_prop!(
    C15Explore,
    "C15",
    Which { c15: true, c16: false, c17: false },
    TREE_PLANNERS,
    "explicit-state exploration of the real planner: per (kind, planner, world over the alphabet, goal bias in {0,1}, RRT* radius in {0.5,1,1.5,3} x step) every sample sequence of length <= 4 (quick) / 6 (thorough) over a 6-7 state alphabet (start, duplicate / -q of the start, goal target, collinear points, seam and antipodal angles, quaternions at dot 0 and just above the 0.9995 switch), one iteration per solve call (budget 1, scripted sampler), breadth first, de-duplicated by tree snapshot. After every iteration the whole tree is checked (indices, single root, acyclic, root = start / sampled goal, every node valid) and the edges created or changed by that iteration are checked against oracle A (validity-query log), oracle B (dense re-check) and the extension limit. One 'case' = one root configuration; counters give sequences / distinct snapshots. Non-trivial = a root whose exploration reached >= 4 distinct snapshots.",
    true
);
explore_prop!(
    C16Explore,
    "C16",
    Which { c15: false, c16: true, c17: false },
    TREE_PLANNERS,
    "same exploration as C15; the object checked is each transition (snapshot before, scripted sample, validity queries of the iteration in order, snapshot after) against a reference model written from the statement: nearest node (ties allowed), new state = sample if within the step else interpolate(nearest, sample, step/dist) bit for bit, added iff the iteration's first motion check passed, nothing else mutated; RRT-Connect: smaller tree (start on ties) first, then one extension of the other tree toward the new node. Non-trivial = root with >= 4 distinct snapshots.",
    false
);
explore_prop!(
    C17Explore,
    "C17",
    Which { c15: false, c16: false, c17: true },
    [PlannerTag::RRTStar],
    "same exploration restricted to RRT* with radius in {0.5,1,1.5,3} x step, alphabets with duplicates (zero-length edges, equal costs), free and obstructed worlds: per iteration (a) cost(new) = cost(parent) + edge bit-exactly, (b) no candidate (neighbour within the radius or the nearest node) offers a lower cost unless a motion query on that segment was rejected, (c) every neighbour that becomes strictly cheaper through the new node without a rejected query is re-parented with the exact cost, all other nodes bit-identical, (d) recorded costs never increase. Non-trivial = root with >= 4 distinct snapshots.",
    false
);

/// Random single-step runs: ops = setup + N x solve(budget 1) with the real sampler (recorded).
fn gen_stepwise(ch: &mut Ch, planners: &[PlannerTag], tier: Tier, big_radius: bool) -> PlanCase {
    let prof = Profile {
        planners: planners.to_vec(),
        max_obst: 3,
        rng_goal: 0.3,
        big_radius,
        p_nonconvex: 0.25,
        // goal regions whose first target is covered by an obstacle: RRT-Connect has to re-draw
        // its goal root in the first solve call
        p_goal_blocked: 0.15,
        ..Default::default()
    };
    let mut c = gen_plan_case(ch, &prof);
    let n = match tier {
        Tier::Quick => ch.int(30, 150),
        Tier::Thorough => ch.int(50, 600),
    } as usize;
    let mut ops = vec![Op::Setup(0)];
    for _ in 0..n {
        ops.push(Op::Solve { budget: 1 });
    }
    // a quarter of the runs re-tune the planner once or twice on the way
    if ch.prob(0.25) {
        for _ in 0..1 + ch.below(2) {
            insert_retune(ch, &mut ops, c.step, c.goal_bias, c.radius);
        }
    }
    c.ops = ops;
    // one run in ten has a goal sampler that fails once, or from its k-th call on; half of those
    // sample the goal only (bias 1), where nothing else may be sampled instead
    if ch.prob(0.1) {
        c.goal_fail_at = Some(ch.below(20));
        c.fault_persists = ch.prob(0.5);
        if ch.prob(0.5) {
            c.goal_bias = 1.0;
        }
    }
    // make success rarer so that the tree keeps growing
    if ch.prob(0.6) {
        c.problems[0].goal.radius *= 0.2;
    }
    c
}

fn check_stepwise(case: &PlanCase, which: Which, ctx: &mut Ctx) {
    match run_case_dyn(case) {
        Err(e) => ctx.discard(format!("unbuildable: {e}")),
        Ok(mut trace) => {
            // stop at the first success: later solve calls continue from a solved tree, which is
            // legitimate but the goal-root / direct-hit reasoning of the oracles assumes one query
            // (RRT-Connect only; RRT and RRT* simply keep growing their one tree, and what a
            // second solve does with the state the first one left behind is part of the property)
            if case.planner == PlannerTag::RRTConnect {
                if let Some(k) = trace.steps.iter().position(|s| matches!(s.res, Res::Path(_))) {
                    trace.steps.truncate(k + 1);
                }
            }
            common_labels(case, &trace, ctx);
            // RRT-Connect may re-draw its goal root in the first solve: skip that step's
            // transition check by starting after it (the invariant still sees the result)
            check_trace_dyn(case, &trace, which, false, ctx);
            ctx.count("iterations", trace.steps.iter().filter(|s| s.ticks == 1).count() as u64);
            ctx.label(format!("final-size>={}", (trace.steps.last().map(|s| s.snap.size()).unwrap_or(0) / 20) * 20));
        }
    }
}

pub struct C15Random;
impl Prop for C15Random {
    type Case = PlanCase;
    const ID: &'static str = "C15";
    const PART: &'static str = "random-stepwise-runs";
    const RULE: &'static str = "proptest-generated planner cases (RRT, RRT-Connect, RRT*; generated worlds, parameters, seeds) run as setup + N x solve(budget 1) with the real seeded sampler, N in 30..150 (quick) / 50..600 (thorough), ending by success or by budget; the invariant of the scripted part is checked on every intermediate snapshot. Non-trivial = a snapshot with >= 4 nodes containing a node whose parent is not the previous node.";
    const HANG_IS_VIOLATION: bool = true;
    fn random_cases(tier: Tier) -> usize {
        tier.pick(5_000, 30_000)
    }
    fn gen(ch: &mut Ch, tier: Tier) -> PlanCase {
        gen_stepwise(ch, &TREE_PLANNERS, tier, true)
    }
    fn check(case: &PlanCase, ctx: &mut Ctx) {
        check_stepwise(case, Which { c15: true, c16: false, c17: false }, ctx);
    }
}

/// Chunked runs ended by budgets of many iterations and by real timeouts: invariant on the final
/// snapshot of each call (all edges, against the whole log).
pub struct C15Chunked;
impl Prop for C15Chunked {
    type Case = PlanCase;
    const ID: &'static str = "C15";
    const PART: &'static str = "random-chunked-and-timed-runs";
    const RULE: &'static str = "planner cases run as setup + solve(budget 200-1500) + solve under a real 1-5 ms wall-clock timeout: the structural invariant (indices, single root, acyclic, node validity, root identity, path = parent walk, RRT* cost >= branch length) is checked on the snapshot after each call, whether it ended in success, budget or timeout. Non-trivial = final tree with >= 4 nodes and a non-chain edge.";
    const HANG_IS_VIOLATION: bool = true;
    fn random_cases(tier: Tier) -> usize {
        tier.pick(6_000, 30_000)
    }
    fn gen(ch: &mut Ch, _tier: Tier) -> PlanCase {
        let prof = Profile {
            planners: TREE_PLANNERS.to_vec(),
            max_obst: 3,
            big_radius: true,
            ..Default::default()
        };
        let mut c = gen_plan_case(ch, &prof);
        let b = default_budget(ch, c.planner, 1.0);
        c.ops = vec![Op::Setup(0), Op::Solve { budget: b }, Op::SolveTimed { us: ch.int(1000, 5000) as u64 }];
        if ch.prob(0.5) {
            c.problems[0].goal.radius *= 0.1;
        }
        c.query_cap = usize::MAX;
        c
    }
    fn check(case: &PlanCase, ctx: &mut Ctx) {
        match run_case_dyn(case) {
            Err(e) => ctx.discard(format!("unbuildable: {e}")),
            Ok(trace) => {
                common_labels(case, &trace, ctx);
                structural_only(case, &trace, ctx);
            }
        }
    }
}

/// Planner objects re-used for a second problem: re-setup with another start / goal, possibly an
/// invalid start and a stricter checker.
pub struct C15ReSetup;
impl Prop for C15ReSetup {
    type Case = PlanCase;
    const ID: &'static str = "C15";
    const PART: &'static str = "re-setup-histories";
    const RULE: &'static str = "planner cases with two problems run as setup(P1), solve, [solve,] setup(P2), solve, [solve]: P2 has its own start and goal, in 30% of the cases a start the checker rejects (marginally inside an obstacle), in 30% a stricter checker (the base world plus one obstacle). The structural invariant (indices, single root, acyclic, root = the current problem's start, every node valid in the world in effect, a rejected start never grown from, path = parent walk, RRT* cost >= branch length, edges within the extension limit) is checked on the snapshot after every call. Non-trivial = a tree of >= 4 nodes with a non-chain edge.";
    const HANG_IS_VIOLATION: bool = true;
    fn random_cases(tier: Tier) -> usize {
        tier.pick(5_000, 30_000)
    }
    fn gen(ch: &mut Ch, _tier: Tier) -> PlanCase {
        let prof = Profile {
            planners: TREE_PLANNERS.to_vec(),
            max_obst: 3,
            big_radius: true,
            histories: true,
            p_world2: 0.3,
            p_goal_blocked: 0.1,
            budget_scale: 0.4,
            ..Default::default()
        };
        let mut c = gen_plan_case(ch, &prof);
        let b = |ch: &mut Ch| default_budget(ch, c.planner, 0.4);
        let mut ops = vec![Op::Setup(0), Op::Solve { budget: b(ch) }];
        if ch.prob(0.3) {
            ops.push(Op::Solve { budget: b(ch) });
        }
        ops.push(Op::Setup(1));
        ops.push(Op::Solve { budget: b(ch) });
        if ch.prob(0.4) {
            ops.push(Op::Solve { budget: b(ch) });
        }
        c.ops = ops;
        if ch.prob(0.3) {
            // a start for P2 that the checker of P2's world rejects: the centre of a small ball
            // obstacle added to both worlds, unless that would invalidate P1's start
            let s2 = c.problems[1].start.clone();
            let r = 1e-3 * approx_extent(&c.space).max(1e-9);
            let o = Obst::Ball { c: s2, r };
            if !o.hits(&c.space, &c.problems[0].start) {
                c.world.obst.push(o.clone());
                if let Some(w2) = c.world2.as_mut() {
                    w2.obst.push(o);
                }
            }
        }
        c.query_cap = usize::MAX;
        c
    }
    fn check(case: &PlanCase, ctx: &mut Ctx) {
        match run_case_dyn(case) {
            Err(e) => ctx.discard(format!("unbuildable: {e}")),
            Ok(trace) => {
                common_labels(case, &trace, ctx);
                structural_only(case, &trace, ctx);
            }
        }
    }
}

fn structural_k<K: Kind>(case: &PlanCase, trace: &Trace, ctx: &mut Ctx) {
    let Some(ks) = KSpace::<K>::new(&case.space) else { return };
    let empty = super::paths::DecodedLog::<K> { states: vec![], ok: vec![] };
    // problem and world in effect at each step (a setup step: the ones it installs)
    let mut at = vec![(None::<usize>, 0usize); trace.steps.len()];
    walk_model(case, trace, |i, m, st| {
        at[i] = match st.op {
            Op::Setup(p) => {
                let p = p % case.problems.len();
                (Some(p), case.world_index_for(p))
            }
            _ => (m.problem, m.world),
        };
    });
    let mut solved = false;
    for (si, st) in trace.steps.iter().enumerate() {
        if matches!(st.res, Res::Panic { .. }) {
            ctx.panicked = true;
            return;
        }
        let (Some(pi), wi) = at[si] else { continue };
        let prob = &case.problems[pi];
        let world = case.world_by_index(wi);
        let trees: Vec<&Vec<NodeF>> = match &st.snap {
            Snap::Tree(t) => vec![t],
            Snap::Two(a, b) => vec![a, b],
            _ => vec![],
        };
        match st.op {
            Op::Setup(_) => solved = false,
            // a call that ended at the start-state check never looked at the goal-tree root
            Op::Solve { .. } | Op::SolveTimed { .. } => {
                if !matches!(&st.res, Res::Err(e) if e == "InvalidStartState" || e == "PlannerUninitialised") {
                    solved = true;
                }
            }
            _ => {}
        }
        let no_start = case.empty_starts || prob.no_start;
        for (ti, t) in trees.iter().enumerate() {
            if t.is_empty() {
                continue;
            }
            let root = if ti == 0 && !no_start { Some(&prob.start[..]) } else { None };
            tree_invariant(&ks, case, t, if ti == 0 { "start-tree" } else { "goal-tree" }, root, &empty, (0, 0), trace.lvs, super::paths::edge_limit_upto(case, trace, si), world, &|_| false, ti == 0 || solved, ctx);
        }
        if let (Res::Path(p), Snap::Tree(t)) = (&st.res, &st.snap) {
            // path = parent walk from the last node
            let mut w = vec![t.len() - 1];
            while let Some(pp) = t[*w.last().unwrap()].parent {
                w.push(pp);
                if w.len() > t.len() {
                    break;
                }
            }
            let same = w.len() == p.len() && w.iter().rev().zip(p).all(|(k, s)| bits_eq(&t[*k].s, s));
            if !same {
                ctx.fail(format!("C15:path-is-not-the-parent-walk:{}", planner_name(case.planner)), "returned path differs from the parent walk of the last node");
            }
        }
        let non_chain = trees
            .iter()
            .any(|t| t.iter().enumerate().any(|(i, n)| matches!(n.parent, Some(p) if p + 1 != i)));
        if st.snap.size() >= 4 && non_chain {
            ctx.nontrivial = true;
        }
        if matches!(st.op, Op::SolveTimed { .. }) {
            ctx.label(format!("timed-call:{}", st.res.tag()));
        }
        if pi == 1 && matches!(st.op, Op::Solve { .. }) {
            ctx.label(format!("solve-after-re-setup:{}", st.res.tag()));
        }
    }
}
fn structural_only(case: &PlanCase, trace: &Trace, ctx: &mut Ctx) {
    crate::with_kind!(case.space.kind, structural_k, case, trace, ctx)
}

pub struct C16Random;
impl Prop for C16Random {
    type Case = PlanCase;
    const ID: &'static str = "C16";
    const PART: &'static str = "random-stepwise-runs";
    const RULE: &'static str = "generated planner cases (RRT, RRT-Connect, RRT*) run as setup + N x solve(budget 1) with the real seeded sampler wrapped by a recording space/goal; every iteration's transition is checked by the reference model of the scripted part. Non-trivial = a transition in which the nearest node is not the most recently added one and the sample is farther than the step, or an RRT-Connect iteration in which both trees grew.";
    fn random_cases(tier: Tier) -> usize {
        tier.pick(5_000, 30_000)
    }
    fn gen(ch: &mut Ch, tier: Tier) -> PlanCase {
        gen_stepwise(ch, &TREE_PLANNERS, tier, false)
    }
    fn check(case: &PlanCase, ctx: &mut Ctx) {
        check_stepwise(case, Which { c15: false, c16: true, c17: false }, ctx);
    }
}

/// The per-iteration oracles above watch calls of one iteration each. This part carries their
/// verdict over to calls of many iterations: what an iteration does must not depend on where the
/// call boundaries fall.
pub struct C16Chunk;
impl Prop for C16Chunk {
    type Case = PlanCase;
    const ID: &'static str = "C16";
    const PART: &'static str = "call-boundary-invariance";
    const RULE: &'static str = "generated planner cases (RRT, RRT-Connect, RRT*; worlds, parameters, seeds): run A = setup + one solve(budget N), N in 2..80, which starts k <= N iterations (hook counter); run B = setup + k x solve(budget 1), whose every iteration is of the kind the transition oracle checks. Final trees (states, parents, costs) and the last result must be identical bit for bit. Non-trivial = k >= 3 and a final tree of >= 4 nodes.";
    const HANG_IS_VIOLATION: bool = true;
    fn random_cases(tier: Tier) -> usize {
        tier.pick(6_000, 40_000)
    }
    fn gen(ch: &mut Ch, tier: Tier) -> PlanCase {
        let big = ch.prob(0.5);
        let mut c = gen_stepwise(ch, &TREE_PLANNERS, tier, big);
        let n = ch.int(2, 80) as u64;
        c.ops = vec![Op::Setup(0), Op::Solve { budget: n }];
        c.query_cap = usize::MAX;
        c
    }
    fn check(case: &PlanCase, ctx: &mut Ctx) {
        let pname = planner_name(case.planner);
        let Ok(ta) = run_case_dyn(case) else {
            ctx.discard("unbuildable");
            return;
        };
        common_labels(case, &ta, ctx);
        if ta.steps.iter().any(|s| matches!(s.res, Res::Panic { .. })) {
            ctx.panicked = true;
            return;
        }
        let k = ta.steps[1].ticks;
        let mut b = case.clone();
        b.ops = vec![Op::Setup(0)];
        // k = 0: the call ended before its first iteration (invalid start, ...): one call again
        for _ in 0..k.max(1) {
            b.ops.push(Op::Solve { budget: 1 });
        }
        let Ok(tb) = run_case_dyn(&b) else {
            ctx.discard("unbuildable");
            return;
        };
        if tb.steps.iter().any(|s| matches!(s.res, Res::Panic { .. })) {
            ctx.panicked = true;
            return;
        }
        let (la, lb) = (ta.steps.last().unwrap(), tb.steps.last().unwrap());
        if !la.snap.bits_eq(&lb.snap) {
            ctx.fail(
                format!("C16:iteration-depends-on-call-boundaries:{pname}:tree"),
                format!(
                    "one solve call of {k} iterations leaves a tree of {} nodes, {k} calls of one iteration each (same seed) a tree of {} nodes, or the same number with different states / parents / costs",
                    la.snap.size(),
                    lb.snap.size()
                ),
            );
            return;
        }
        if !la.res.same(&lb.res) {
            ctx.fail(
                format!("C16:iteration-depends-on-call-boundaries:{pname}:result"),
                format!("one call of {k} iterations returned {}, the last of {k} single-iteration calls {}", la.res.tag(), lb.res.tag()),
            );
            return;
        }
        ctx.label(format!("result:{}", la.res.tag()));
        ctx.nontrivial = k >= 3 && la.snap.size() >= 4;
    }
}

pub struct C17Random;
impl Prop for C17Random {
    type Case = PlanCase;
    const ID: &'static str = "C17";
    const PART: &'static str = "random-stepwise-runs";
    const RULE: &'static str = "generated RRT* cases (radius 1-4 x step, free and obstructed worlds) run as setup + N x solve(budget 1); every accepted iteration is checked against (a)-(d). Non-trivial = an iteration in which choose-parent picked a non-nearest parent or at least one node was rewired.";
    fn random_cases(tier: Tier) -> usize {
        tier.pick(4_000, 25_000)
    }
    fn gen(ch: &mut Ch, tier: Tier) -> PlanCase {
        let mut c = gen_stepwise(ch, &[PlannerTag::RRTStar], tier, true);
        if ch.prob(0.3) {
            c.world = Default::default();
        }
        c
    }
    fn check(case: &PlanCase, ctx: &mut Ctx) {
        check_stepwise(case, Which { c15: false, c16: false, c17: true }, ctx);
    }
}

/// RRT vs RRT*: same seed and problem => same end state, RRT* path no longer.
pub struct C17VsRrt;
impl Prop for C17VsRrt {
    type Case = PlanCase;
    const ID: &'static str = "C17";
    const PART: &'static str = "rrt-vs-rrtstar";
    const RULE: &'static str = "generated cases solved by RRT and by RRT* with the same seed, parameters, world and iteration budget: both must end the same way; when both return a path the last states are bit-equal and length(RRT*) <= length(RRT) (1+1e-12) + tol. Non-trivial = both return a path and the two paths differ.";
    fn random_cases(tier: Tier) -> usize {
        tier.pick(10_000, 60_000)
    }
    fn gen(ch: &mut Ch, _tier: Tier) -> PlanCase {
        let prof = Profile {
            planners: vec![PlannerTag::RRTStar],
            max_obst: 3,
            big_radius: true,
            ..Default::default()
        };
        gen_plan_case(ch, &prof)
    }
    fn check(case: &PlanCase, ctx: &mut Ctx) {
        let mut a = case.clone();
        a.planner = PlannerTag::RRT;
        a.query_cap = usize::MAX;
        let mut b = case.clone();
        b.planner = PlannerTag::RRTStar;
        b.query_cap = usize::MAX;
        let (ta, tb) = match (run_case_dyn(&a), run_case_dyn(&b)) {
            (Ok(x), Ok(y)) => (x, y),
            _ => {
                ctx.discard("unbuildable");
                return;
            }
        };
        common_labels(&b, &tb, ctx);
        let (ra, rb) = (&ta.steps.last().unwrap().res, &tb.steps.last().unwrap().res);
        if matches!(ra, Res::Panic { .. }) || matches!(rb, Res::Panic { .. }) {
            ctx.panicked = true;
            return;
        }
        match (ra, rb) {
            (Res::Path(pa), Res::Path(pb)) => {
                if !bits_eq(pa.last().unwrap(), pb.last().unwrap()) {
                    ctx.fail("C17:rrt-vs-rrtstar:different-end-state", format!("RRT ends at {:?}, RRT* at {:?}", pa.last(), pb.last()));
                    return;
                }
                let len = |p: &Vec<Vec<f64>>| -> f64 {
                    let mut l = 0.0;
                    for w in p.windows(2) {
                        l += super::trees_len(case, &w[0], &w[1]);
                    }
                    l
                };
                let (la, lb) = (len(pa), len(pb));
                let tol = 1e-9 * (1.0 + la) + (pa.len() + pb.len()) as f64 * seg_tol(&case.space, 0.0) * 1e-3;
                if !(lb <= la * (1.0 + 1e-12) + tol) {
                    ctx.fail("C17:rrt-vs-rrtstar:rrtstar-path-longer", format!("RRT path length {la:e} ({} states), RRT* path length {lb:e} ({} states)", pa.len(), pb.len()));
                }
                let differ = pa.len() != pb.len() || pa.iter().zip(pb).any(|(x, y)| !bits_eq(x, y));
                if differ {
                    ctx.nontrivial = true;
                    ctx.label("paths-differ");
                }
            }
            (x, y) => {
                if x.tag() != y.tag() {
                    ctx.fail("C17:rrt-vs-rrtstar:different-outcome", format!("RRT returned {}, RRT* returned {}", x.tag(), y.tag()));
                }
            }
        }
    }
}

/// Goal-bias frequency over long seeded runs (C16, statistical part).
#[derive(Clone, Debug, serde::Serialize, serde::Deserialize)]
pub struct BiasCase {
    pub kind: KindTag,
    pub planner: PlannerTag,
    pub bias: f64,
    pub seed: u64,
    pub iterations: u64,
}
pub struct C16GoalBias;
impl C16GoalBias {
    fn run(case: &BiasCase, seed: u64) -> Option<(u64, u64, u64)> {
        let a = alphabet(case.kind);
        // a closed shell around the start keeps the start tree confined, so no planner can ever
        // succeed and every run is ended by the budget
        let d = ref_distance(&a.space, &a.states[0], &a.states[2]);
        let world = crate::world::World {
            obst: vec![crate::world::Obst::Shell {
                c: a.states[0].clone(),
                r_in: 0.1 * d,
                r_out: 0.25 * d,
            }],
            only_inside: None,
            sballs: vec![],
        };
        let pc = PlanCase {
            space: a.space.clone(),
            world,
            problems: vec![Problem {
                start: a.states[0].clone(),
                goal: crate::wrap::GoalCfg {
                    targets: vec![a.states[2].clone()],
                    // never satisfied (distance <= -1 is false): the run is ended by the budget
                    radius: -1.0,
                    rng_sampler: false,
                    half: false,
                },
                extra_starts: vec![],
                no_start: false,
            }],
            planner: case.planner,
            step: a.step * 0.2,
            goal_bias: case.bias,
            radius: a.step * 0.2,
            seed: Some(seed),
            script: None,
            ops: vec![Op::Setup(0), Op::Solve { budget: case.iterations }],
            space_fail_at: None,
            goal_fail_at: None,
            empty_starts: false,
            query_cap: usize::MAX,
            world2: None,
            space2: None,
            fault_persists: false,
            raw_space: false,
            prm_timeout: None,
        };
        let t = run_case_dyn(&pc).ok()?;
        let st = t.steps.last()?;
        if !matches!(st.res, Res::Err(_)) {
            return None;
        }
        let g = (st.goal_calls.1 - st.goal_calls.0) as u64;
        let u = (st.uniform_calls.1 - st.uniform_calls.0) as u64;
        Some((g, u, st.ticks))
    }
}
/// ln of the two-sided binomial tail bound (Hoeffding): P(|X/n - p| >= d) <= 2 exp(-2 n d^2)
fn hoeffding_p(n: u64, p: f64, k: u64) -> f64 {
    let d = (k as f64 / n as f64 - p).abs();
    (2.0 * (-2.0 * n as f64 * d * d).exp()).min(1.0)
}
impl Prop for C16GoalBias {
    type Case = BiasCase;
    const ID: &'static str = "C16";
    const PART: &'static str = "goal-bias-frequency";
    const RULE: &'static str = "long seeded, budgeted runs (2000 iterations quick / 20000 thorough; RRT-Connect setup's goal-root draw is discounted) with counting wrappers on sample_uniform / sample_goal for goal bias in {0, 0.05, 0.3, 0.7, 1} x 3 planners x 6 kinds x seeds: bias 0 => sample_goal never called in the loop, bias 1 => sample_uniform never called, bias p => goal-call frequency within the Hoeffding bound at alpha = 1e-9, and a deviation must repeat on a second independent seed to count. Non-trivial = 0 < p < 1.";
    fn random_cases(_tier: Tier) -> usize {
        0
    }
    fn gen(_ch: &mut Ch, _tier: Tier) -> BiasCase {
        unreachable!()
    }
    fn enumerate(tier: Tier, emit: &mut dyn FnMut(BiasCase)) {
        for kind in ALL_KINDS {
            for planner in TREE_PLANNERS {
                for bias in [0.0, 0.05, 0.3, 0.7, 1.0] {
                    for s in 0..tier.pick(1, 3) {
                        emit(BiasCase {
                            kind,
                            planner,
                            bias,
                            seed: 1000 + s,
                            iterations: tier.pick(2_000, 20_000),
                        });
                    }
                }
            }
        }
    }
    fn check(case: &BiasCase, ctx: &mut Ctx) {
        let pname = planner_name(case.planner);
        let vs = crate::runner::verif_seed();
        let Some((g, u, n)) = Self::run(case, case.seed ^ vs.wrapping_mul(0x9E37)) else {
            ctx.discard("run ended unexpectedly");
            return;
        };
        // RRT-Connect draws its goal root in setup (not part of this solve call's counters)
        ctx.label(format!("bias:{}", case.bias));
        if g + u != n {
            ctx.fail(format!("C16:goal-bias:samples-per-iteration:{pname}"), format!("{n} iterations drew {g} goal + {u} uniform samples"));
            return;
        }
        if case.bias == 0.0 && g != 0 {
            ctx.fail(format!("C16:goal-bias:goal-sampled-with-bias-0:{pname}"), format!("{g} goal samples in {n} iterations"));
        } else if case.bias == 1.0 && u != 0 {
            ctx.fail(format!("C16:goal-bias:uniform-sampled-with-bias-1:{pname}"), format!("{u} uniform samples in {n} iterations"));
        } else if case.bias > 0.0 && case.bias < 1.0 {
            ctx.nontrivial = true;
            if hoeffding_p(n, case.bias, g) < 1e-9 {
                // confirm on an independent seed
                if let Some((g2, _, n2)) = Self::run(case, case.seed.wrapping_add(777_777) ^ vs) {
                    if hoeffding_p(n2, case.bias, g2) < 1e-9 {
                        ctx.fail(
                            format!("C16:goal-bias:frequency:{pname}"),
                            format!("goal bias {}: {g}/{n} and {g2}/{n2} goal samples on two seeds", case.bias),
                        );
                    }
                }
            }
        }
    }
}
