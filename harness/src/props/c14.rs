//! C14 — uniform sampling is uniform (goodness of fit against the exact laws).

use crate::choice::Ch;
use crate::flat::*;
use crate::gen::*;
use crate::runner::*;
use oxmpl::base::space::StateSpace;
use rand::{rngs::StdRng, SeedableRng};
use serde::{Deserialize, Serialize};
use std::f64::consts::PI;

#[derive(Clone, Debug, Serialize, Deserialize)]
pub struct UniformCase {
    pub space: SpaceCfg,
    pub seed: u64,
    pub n: usize,
}

const ALPHA: f64 = 1e-9;

/// Asymptotic Kolmogorov upper tail Q(lambda).
fn ks_q(lambda: f64) -> f64 {
    if lambda < 0.2 {
        return 1.0;
    }
    let mut s = 0.0;
    for k in 1..200 {
        let t = (-2.0 * (k as f64).powi(2) * lambda * lambda).exp();
        s += if k % 2 == 1 { t } else { -t };
        if t < 1e-30 {
            break;
        }
    }
    (2.0 * s).clamp(0.0, 1.0)
}
/// One-sample KS p-value of values already mapped to U(0,1) by the exact CDF.
fn ks_p(u: &mut [f64]) -> (f64, f64) {
    u.sort_by(|a, b| a.partial_cmp(b).unwrap_or(std::cmp::Ordering::Equal));
    let n = u.len() as f64;
    let mut d = 0.0f64;
    for (i, x) in u.iter().enumerate() {
        let lo = i as f64 / n;
        let hi = (i + 1) as f64 / n;
        d = d.max((x - lo).abs()).max((hi - x).abs());
    }
    let lambda = (n.sqrt() + 0.12 + 0.11 / n.sqrt()) * d;
    (d, ks_q(lambda))
}
fn ln_gamma(x: f64) -> f64 {
    // Lanczos
    let g = [
        76.18009172947146,
        -86.50532032941677,
        24.01409824083091,
        -1.231739572450155,
        0.1208650973866179e-2,
        -0.5395239384953e-5,
    ];
    let mut y = x;
    let tmp = x + 5.5 - (x + 0.5) * (x + 5.5).ln();
    let mut ser = 1.000000000190015;
    for c in g {
        y += 1.0;
        ser += c / y;
    }
    -tmp + (2.5066282746310005 * ser / x).ln()
}
/// Regularised upper incomplete gamma Q(a, x).
fn gamma_q(a: f64, x: f64) -> f64 {
    if x <= 0.0 {
        return 1.0;
    }
    if x < a + 1.0 {
        // series for P
        let mut ap = a;
        let mut sum = 1.0 / a;
        let mut del = sum;
        for _ in 0..10_000 {
            ap += 1.0;
            del *= x / ap;
            sum += del;
            if del.abs() < sum.abs() * 1e-16 {
                break;
            }
        }
        1.0 - sum * (-x + a * x.ln() - ln_gamma(a)).exp()
    } else {
        // continued fraction for Q
        let mut b = x + 1.0 - a;
        let mut c = 1e300;
        let mut d = 1.0 / b;
        let mut h = d;
        for i in 1..10_000 {
            let an = -(i as f64) * (i as f64 - a);
            b += 2.0;
            d = an * d + b;
            if d.abs() < 1e-300 {
                d = 1e-300;
            }
            c = b + an / c;
            if c.abs() < 1e-300 {
                c = 1e-300;
            }
            d = 1.0 / d;
            let del = d * c;
            h *= del;
            if (del - 1.0).abs() < 1e-16 {
                break;
            }
        }
        (-x + a * x.ln() - ln_gamma(a)).exp() * h
    }
}
/// chi-square independence/uniformity test on a g x g grid of two U(0,1) marginals.
fn chi2_grid_p(u: &[f64], v: &[f64], g: usize) -> (f64, f64) {
    let mut cells = vec![0u64; g * g];
    for (a, b) in u.iter().zip(v) {
        let i = ((a * g as f64) as usize).min(g - 1);
        let j = ((b * g as f64) as usize).min(g - 1);
        cells[i * g + j] += 1;
    }
    let n = u.len() as f64;
    let e = n / (g * g) as f64;
    let x2: f64 = cells.iter().map(|c| (*c as f64 - e).powi(2) / e).sum();
    let df = (g * g - 1) as f64;
    (x2, gamma_q(df / 2.0, x2 / 2.0))
}

fn conj(q: &[f64; 4]) -> [f64; 4] {
    [-q[0], -q[1], -q[2], q[3]]
}

/// Maps the draws of one component to lists of U(0,1) marginals (name, values).
fn marginals(c: &Comp, col: &[Vec<f64>]) -> Vec<(String, Vec<f64>)> {
    let mut out = Vec::new();
    match c {
        Comp::RV { dim, bounds } => {
            let b = bounds.as_ref().unwrap();
            for k in 0..*dim {
                let (lo, hi) = b[k];
                out.push((format!("coordinate{k}"), col.iter().map(|v| (v[k] - lo) / (hi - lo)).collect()));
            }
        }
        Comp::SO2 { bounds } => {
            let (lo, hi) = bounds.unwrap_or((-PI, PI));
            let (lo, hi) = (lo.max(-PI), hi.min(PI));
            out.push(("angle".into(), col.iter().map(|v| (v[0] - lo) / (hi - lo)).collect()));
        }
        Comp::SO3 { bounds } => {
            let (c, tmax) = bounds.map(|(c, a)| (c, a.min(PI))).unwrap_or(([0.0, 0.0, 0.0, 1.0], PI));
            let norm = tmax - tmax.sin();
            let mut ang = Vec::new();
            let mut z = Vec::new();
            let mut az = Vec::new();
            for v in col {
                let q = [v[0], v[1], v[2], v[3]];
                // relative rotation r = c^-1 q, taken on the short hemisphere
                let mut r = quat_mul_raw(&conj(&c), &q);
                if r[3] < 0.0 {
                    r = [-r[0], -r[1], -r[2], -r[3]];
                }
                let vn = (r[0] * r[0] + r[1] * r[1] + r[2] * r[2]).sqrt();
                let theta = 2.0 * vn.atan2(r[3]);
                ang.push(((theta - theta.sin()) / norm).clamp(0.0, 1.0));
                if vn > 1e-12 {
                    z.push((r[2] / vn + 1.0) / 2.0);
                    az.push((r[1].atan2(r[0]) + PI) / (2.0 * PI));
                }
            }
            out.push(("rotation-angle".into(), ang));
            out.push(("axis-z".into(), z));
            out.push(("axis-azimuth".into(), az));
        }
    }
    out
}
fn quat_mul_raw(a: &[f64; 4], b: &[f64; 4]) -> [f64; 4] {
    let (ax, ay, az, aw) = (a[0], a[1], a[2], a[3]);
    let (bx, by, bz, bw) = (b[0], b[1], b[2], b[3]);
    [
        aw * bx + ax * bw + ay * bz - az * by,
        aw * by - ax * bz + ay * bw + az * bx,
        aw * bz + ax * by - ay * bx + az * bw,
        aw * bw - ax * bx - ay * by - az * bz,
    ]
}

/// Runs all tests of one setting; returns (test name, statistic, p-value) for every test.
fn run_tests<K: Kind>(case: &UniformCase, seed: u64) -> Result<Vec<(String, f64, f64)>, String> {
    let cfg = &case.space;
    let sp = K::build(cfg)?;
    let mut rng = StdRng::seed_from_u64(seed);
    let offs = cfg.offsets();
    let mut cols: Vec<Vec<Vec<f64>>> = cfg.comps.iter().map(|_| Vec::with_capacity(case.n)).collect();
    let mut sign_pos = vec![0u64; cfg.comps.len()];
    for _ in 0..case.n {
        let s = sp.sample_uniform(&mut rng).map_err(|e| format!("{e:?}"))?;
        let f = K::enc(&s);
        for (i, c) in cfg.comps.iter().enumerate() {
            let v = f[offs[i]..offs[i] + c.width()].to_vec();
            if let Comp::SO3 { bounds } = c {
                let cq = bounds.map(|(c, _)| c).unwrap_or([0.0, 0.0, 0.0, 1.0]);
                let dot: f64 = (0..4).map(|k| cq[k] * v[k]).sum();
                if dot > 0.0 {
                    sign_pos[i] += 1;
                }
            }
            cols[i].push(v);
        }
    }
    let mut res = Vec::new();
    let mut all_marg: Vec<(String, Vec<f64>)> = Vec::new();
    for (i, c) in cfg.comps.iter().enumerate() {
        for (name, mut vals) in marginals(c, &cols[i]) {
            let full = vals.clone();
            let (d, p) = ks_p(&mut vals);
            res.push((format!("KS:comp{i}:{name}"), d, p));
            if full.len() == case.n {
                all_marg.push((format!("comp{i}:{name}"), full));
            }
        }
        if let Comp::SO3 { .. } = c {
            // sign symmetry of the quaternion relative to the centre: two-sided binomial via
            // the normal approximation (n is large)
            let n = case.n as f64;
            let z = (sign_pos[i] as f64 - n / 2.0) / (n / 4.0).sqrt();
            let p = 2.0 * 0.5 * erfc(z.abs() / std::f64::consts::SQRT_2);
            res.push((format!("sign:comp{i}"), z, p));
        }
    }
    // pairwise independence of all full-length marginals (every pair, so that a dependence
    // between coordinates that are not neighbours is seen too)
    for i in 0..all_marg.len() {
        for j in i + 1..all_marg.len() {
            let (x2, p) = chi2_grid_p(&all_marg[i].1, &all_marg[j].1, 8);
            res.push((format!("chi2-8x8:{}x{}", all_marg[i].0, all_marg[j].0), x2, p));
        }
    }
    Ok(res)
}
fn erfc(x: f64) -> f64 {
    // Numerical Recipes erfcc, relative error < 1.2e-7 (enough at alpha = 1e-9 on a log scale)
    let z = x.abs();
    let t = 1.0 / (1.0 + 0.5 * z);
    let r = t
        * (-z * z - 1.26551223
            + t * (1.00002368
                + t * (0.37409196
                    + t * (0.09678418
                        + t * (-0.18628806
                            + t * (0.27886807
                                + t * (-1.13520398 + t * (1.48851587 + t * (-0.82215223 + t * 0.17087277)))))))))
            .exp();
    if x >= 0.0 {
        r
    } else {
        2.0 - r
    }
}

fn check_k<K: Kind>(case: &UniformCase, ctx: &mut Ctx) {
    let kind = format!("{:?}", case.space.kind);
    ctx.label(format!("kind:{kind}"));
    let first = match run_tests::<K>(case, case.seed) {
        Ok(r) => r,
        Err(e) => {
            ctx.discard(format!("cannot sample: {e}"));
            return;
        }
    };
    ctx.count("statistical-tests", first.len() as u64);
    ctx.count("draws", case.n as u64);
    let suspicious: Vec<&(String, f64, f64)> = first.iter().filter(|t| t.2 < ALPHA).collect();
    if !suspicious.is_empty() {
        // must repeat on a second, independent seed
        if let Ok(second) = run_tests::<K>(case, case.seed.wrapping_mul(0x9E37_79B9).wrapping_add(12345)) {
            for t in suspicious {
                if let Some(t2) = second.iter().find(|x| x.0 == t.0) {
                    if t2.2 < ALPHA {
                        let class = t.0.split(':').next().unwrap_or("");
                        let what = t.0.rsplit(':').next().unwrap_or("");
                        ctx.fail(
                            format!("C14:{kind}:{class}:{what}"),
                            format!("{}: statistic {:e} (p = {:e}) and, on a second seed, {:e} (p = {:e}) with n = {}", t.0, t.1, t.2, t2.1, t2.2, case.n),
                        );
                    }
                }
            }
        }
    }
    let nondefault = case.space.comps.iter().any(|c| match c {
        Comp::RV { .. } => true,
        Comp::SO2 { bounds } => bounds.is_some(),
        Comp::SO3 { bounds } => bounds.is_some(),
    });
    ctx.nontrivial = nondefault;
}

pub struct C14;
impl Prop for C14 {
    type Case = UniformCase;
    const ID: &'static str = "C14";
    const PART: &'static str = "goodness-of-fit";
    const MAX_SHRINK_ITERS: u32 = 8;
    const RULE: &'static str = "proptest-generated bound settings (boxes of 1-9 dims, 9-20 dims for a third of them, incl. 1e-3 and 1e4 scales, SO2 intervals, SO3 full and cones of radius [0.3, pi), compounds, SE2/SE3) x sampler seeds; N = 2e5 draws per setting (quick) / 1e6 (thorough). Per setting: Kolmogorov-Smirnov of every marginal against its exact CDF (coordinate, angle, rotation angle (theta - sin theta)/(tmax - sin tmax) relative to the cone centre, axis z-component, axis azimuth), sign symmetry of the quaternion, chi-square on an 8x8 grid for every pair of marginals (independence); 12 % of the settings with an SO3 part use a narrow cone (0.12-0.3 rad) with N = 2e4, 6 % a very narrow one (0.06-0.12 rad) with N = 2e3; a quarter of the boxes share a lower bound (or both bounds) across coordinates. Each test at alpha = 1e-9 and a failure must repeat on a second independent seed. One case = one setting; counters give the number of statistical tests and draws. Cannot see biases below about 1%. Non-trivial = setting with non-default bounds.";
    fn random_cases(tier: Tier) -> usize {
        tier.pick(96, 360)
    }
    fn gen(ch: &mut Ch, tier: Tier) -> UniformCase {
        let kind = ch.pick(&ALL_KINDS);
        let mut space = gen_space(ch, kind, BoundsMode::Bounded, false);
        let _ = &mut space;
        // requested SO2 intervals that stick out of [-pi, pi] (the constructor clamps them)
        for c in space.comps.iter_mut() {
            if let Comp::SO2 { bounds } = c {
                if ch.prob(0.3) {
                    *bounds = Some(match ch.below(3) {
                        0 => (-4.0, ch.range(-1.0, 3.0)),
                        1 => (ch.range(-3.0, 1.0), 5.0),
                        _ => (0.0, 2.0 * PI),
                    });
                }
            }
        }
        // "for all dimensions": a third of the boxes (plain or as a compound's component) are
        // wide, 9-20 coordinates, so that every pair of coordinates any distance apart is tested
        let p_wide = if kind == KindTag::RV { 0.4 } else { 0.15 };
        if matches!(kind, KindTag::RV | KindTag::CS) && ch.prob(p_wide) {
            if let Some(i) = space.comps.iter().position(|c| matches!(c, Comp::RV { .. })) {
                let dim = 9 + ch.below(12);
                space.comps[i] = gen_rv_comp(ch, dim, BoundsMode::Bounded);
            }
        }
        // keep rejection sampling affordable: cones of radius >= 0.3 (generator default)
        if kind == KindTag::CS && space.comps.len() > 3 {
            space.comps.truncate(3);
            space.weights.truncate(3);
            space.fracs.truncate(3);
        }
        let mut n = tier.pick(200_000, 1_000_000);
        // narrow cones (0.12-0.3 rad): the rejection sampler needs 1e3-2e4 tries per draw, so
        // they get fewer draws (KS critical distance 0.023 at N = 2e4, alpha = 1e-9)
        if ch.prob(0.12) {
            for c in space.comps.iter_mut() {
                if let Comp::SO3 { bounds } = c {
                    let centre = bounds.map(|b| b.0).unwrap_or([0.0, 0.0, 0.0, 1.0]);
                    *bounds = Some((centre, ch.range(0.12, 0.3)));
                    n = tier.pick(20_000, 60_000);
                    break;
                }
            }
        }
        // very narrow cones (0.06-0.12 rad): the rejection sampler needs 1e4-1e5 tries per
        // draw, so 2 000 draws (KS critical distance 0.073 at alpha = 1e-9) - still far more than
        // enough to see a sampler that gives up and returns something else
        if ch.prob(0.06) {
            for c in space.comps.iter_mut() {
                if let Comp::SO3 { bounds } = c {
                    let centre = bounds.map(|b| b.0).unwrap_or([0.0, 0.0, 0.0, 1.0]);
                    *bounds = Some((centre, ch.range(0.06, 0.12)));
                    n = tier.pick(2_000, 6_000);
                    break;
                }
            }
        }
        UniformCase {
            space,
            seed: ch.seed(),
            n,
        }
    }
    fn check(case: &UniformCase, ctx: &mut Ctx) {
        crate::with_kind!(case.space.kind, check_k, case, ctx)
    }
}
