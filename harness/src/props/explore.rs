//! Bounded-exhaustive, explicit-state exploration of the real RRT / RRT-Connect / RRT* planners
//! under scripted sampling: all sample sequences up to depth D over a small state alphabet,
//! de-duplicated by tree snapshot (under scripted sampling the snapshot *is* the planner state).

use super::lattice::rot;
use super::trees::{check_trace_dyn, Which};
use crate::choice::Ch;
use crate::exec::*;
use crate::flat::*;
use crate::gen::next_down;
use crate::runner::*;
use crate::world::{Obst, World};
use crate::wrap::GoalCfg;
use serde::{Deserialize, Serialize};
use std::collections::HashSet;
use std::f64::consts::PI;
use std::hash::{Hash, Hasher};

#[derive(Clone, Debug, Serialize, Deserialize)]
pub struct Root {
    pub kind: KindTag,
    pub planner: PlannerTag,
    /// index into the world list of this kind's alphabet
    pub world: usize,
    pub goal_bias: f64,
    /// RRT*: search radius as a multiple of the step
    pub radius_factor: f64,
    pub depth: usize,
}

pub struct Alphabet {
    pub space: SpaceCfg,
    /// states[0] = start, [1] = duplicate of start, [2] = goal target, rest: generic + failure-prone
    pub states: Vec<Vec<f64>>,
    pub step: f64,
    pub goal_radius: f64,
}

fn q(a: [f64; 4]) -> Vec<f64> {
    a.to_vec()
}
fn cat(parts: &[&[f64]]) -> Vec<f64> {
    parts.iter().flat_map(|p| p.iter().copied()).collect()
}

pub fn alphabet(kind: KindTag) -> Alphabet {
    let id = [0.0, 0.0, 0.0, 1.0];
    let q0 = rot(&id, [1.0, 2.0, 3.0], 0.4);
    let qt = rot(&q0, [0.0, 1.0, 0.0], 1.5);
    let q_pi = rot(&q0, [1.0, 0.0, 0.0], PI);
    let q_sw = rot(&q0, [0.0, 0.0, 1.0], 2.0 * (0.9995f64).acos() * 0.98);
    let q_gen = rot(&id, [-1.0, 1.0, 0.5], 2.2);
    let neg = |x: [f64; 4]| [-x[0], -x[1], -x[2], -x[3]];
    match kind {
        KindTag::RV => Alphabet {
            space: SpaceCfg::single(
                kind,
                Comp::RV {
                    dim: 2,
                    bounds: Some(vec![(-2.0, 2.0), (-2.0, 2.0)]),
                },
                None,
            ),
            states: vec![
                vec![-1.0, 0.0],
                vec![-1.0, 0.0],
                vec![1.0, 0.0],
                vec![0.0, 0.0],
                vec![-0.5, 0.0],
                vec![0.0, 1.0],
                vec![-1.0, 0.3],
            ],
            step: 0.5,
            goal_radius: 0.05,
        },
        KindTag::SO2 => Alphabet {
            space: SpaceCfg::single(kind, Comp::SO2 { bounds: None }, None),
            states: vec![
                vec![0.5],
                vec![0.5],
                vec![-2.5],
                vec![-PI],
                vec![next_down(PI)],
                vec![0.5 - PI],
                vec![2.0],
            ],
            step: 0.7,
            goal_radius: 0.05,
        },
        KindTag::SO3 => Alphabet {
            space: SpaceCfg::single(kind, Comp::SO3 { bounds: None }, None),
            states: vec![q(q0), q(neg(q0)), q(qt), q(q_pi), q(q_sw), q(q_gen), q(neg(qt))],
            step: 0.6,
            goal_radius: 0.05,
        },
        KindTag::CS => Alphabet {
            space: SpaceCfg {
                kind,
                comps: vec![
                    Comp::SO2 { bounds: None },
                    Comp::RV {
                        dim: 1,
                        bounds: Some(vec![(-2.0, 2.0)]),
                    },
                    Comp::SO3 { bounds: None },
                ],
                weights: vec![1.0, 0.7, 0.5],
                fracs: vec![None, None, None],
            },
            states: vec![
                cat(&[&[3.0], &[-1.0], &q0]),
                cat(&[&[3.0], &[-1.0], &neg(q0)]),
                cat(&[&[-3.0], &[1.0], &qt]),
                cat(&[&[-PI], &[0.0], &q_pi]),
                cat(&[&[3.0], &[0.5], &q0]),
                cat(&[&[0.0], &[-1.0], &q_gen]),
            ],
            step: 0.8,
            goal_radius: 0.05,
        },
        KindTag::SE2 => Alphabet {
            space: SpaceCfg {
                kind,
                comps: vec![
                    Comp::RV {
                        dim: 2,
                        bounds: Some(vec![(-2.0, 2.0), (-2.0, 2.0)]),
                    },
                    Comp::SO2 { bounds: None },
                ],
                weights: vec![1.0, 0.5],
                fracs: vec![None, None],
            },
            states: vec![
                vec![-1.0, 0.0, 3.0],
                vec![-1.0, 0.0, 3.0],
                vec![1.0, 0.0, -3.0],
                vec![0.0, 0.0, -PI],
                vec![-0.5, 0.0, 3.0],
                vec![0.0, 1.0, 0.0],
            ],
            step: 0.5,
            goal_radius: 0.05,
        },
        KindTag::SE3 => Alphabet {
            space: SpaceCfg {
                kind,
                comps: vec![
                    Comp::RV {
                        dim: 3,
                        bounds: Some(vec![(-2.0, 2.0), (-2.0, 2.0), (-2.0, 2.0)]),
                    },
                    Comp::SO3 { bounds: None },
                ],
                weights: vec![1.0, 0.5],
                fracs: vec![None, None],
            },
            states: vec![
                cat(&[&[-1.0, 0.0, 0.0], &q0]),
                cat(&[&[-1.0, 0.0, 0.0], &neg(q0)]),
                cat(&[&[1.0, 0.0, 0.0], &qt]),
                cat(&[&[0.0, 0.0, 0.0], &q_pi]),
                cat(&[&[-0.5, 0.0, 0.0], &q0]),
                cat(&[&[0.0, 1.0, -1.0], &q_gen]),
            ],
            step: 0.5,
            goal_radius: 0.05,
        },
    }
}

/// Worlds over the alphabet: free; a tiny ball on each non-start state; one pair; one wall.
pub fn worlds(a: &Alphabet) -> Vec<World> {
    let mut out = vec![World::default()];
    let tiny = 1e-3;
    let ball = |i: usize| Obst::Ball {
        c: a.states[i].clone(),
        r: tiny,
    };
    for i in 2..a.states.len() {
        out.push(World {
            obst: vec![ball(i)],
            only_inside: None,
            sballs: vec![],
        });
    }
    out.push(World {
        obst: vec![ball(3), ball(a.states.len() - 1)],
        only_inside: None,
            sballs: vec![],
    });
    // a wall: ball around the midpoint of start and target
    let mid = crate::gen::ref_interpolate(&a.space, &a.states[0], &a.states[2], 0.5);
    let d = ref_distance(&a.space, &a.states[0], &a.states[2]);
    out.push(World {
        obst: vec![Obst::Ball { c: mid, r: 0.2 * d }],
        only_inside: None,
            sballs: vec![],
    });
    out
}

pub fn root_case(root: &Root, script: Vec<Vec<f64>>) -> PlanCase {
    let a = alphabet(root.kind);
    let ws = worlds(&a);
    let world = ws[root.world % ws.len()].clone();
    let n = script.len();
    let mut ops = vec![Op::Setup(0)];
    for _ in 0..n {
        ops.push(Op::Solve { budget: 1 });
    }
    PlanCase {
        space: a.space.clone(),
        world,
        problems: vec![Problem {
            start: a.states[0].clone(),
            goal: GoalCfg {
                targets: vec![a.states[2].clone()],
                radius: a.goal_radius,
                rng_sampler: false,
                half: false,
            },
            extra_starts: vec![],
            no_start: false,
        }],
        planner: root.planner,
        step: a.step,
        goal_bias: root.goal_bias,
        radius: a.step * root.radius_factor,
        seed: Some(0),
        script: Some(script),
        ops,
        space_fail_at: None,
        goal_fail_at: None,
        empty_starts: false,
        query_cap: 400_000,
        world2: None,
        space2: None,
        fault_persists: false,
        raw_space: false,
        prm_timeout: None,
    }
}

fn snap_hash(s: &Snap) -> u64 {
    #[allow(deprecated)]
    let mut h = std::hash::SipHasher::new();
    #[allow(deprecated)]
    let node = |n: &NodeF, h: &mut std::hash::SipHasher| {
        for x in &n.s {
            x.to_bits().hash(h);
        }
        n.parent.hash(h);
        n.cost.to_bits().hash(h);
    };
    match s {
        Snap::None => 0u8.hash(&mut h),
        Snap::Tree(t) => {
            1u8.hash(&mut h);
            for n in t {
                node(n, &mut h);
            }
        }
        Snap::Two(a, b) => {
            2u8.hash(&mut h);
            for n in a {
                node(n, &mut h);
            }
            99u8.hash(&mut h);
            for n in b {
                node(n, &mut h);
            }
        }
        Snap::Roadmap(r) => {
            3u8.hash(&mut h);
            for (s, e) in r {
                for x in s {
                    x.to_bits().hash(&mut h);
                }
                e.hash(&mut h);
            }
        }
    }
    h.finish()
}

#[derive(Default, Debug)]
pub struct ExploreStats {
    pub sequences: u64,
    pub distinct_states: u64,
    pub transitions: u64,
    pub pruned: u64,
    pub terminal_ok: u64,
}

/// Breadth-first exploration of all sample sequences up to `root.depth`.
pub fn explore(root: &Root, which: Which, ctx: &mut Ctx) -> ExploreStats {
    let a = alphabet(root.kind);
    let mut stats = ExploreStats::default();
    let mut seen: HashSet<u64> = HashSet::new();
    let mut frontier: Vec<Vec<usize>> = vec![vec![]];
    for _level in 0..root.depth {
        let mut next = Vec::new();
        for seq in &frontier {
            for ai in 0..a.states.len() {
                // the duplicate of the start (index 1) equals index 0 for RV-like kinds; keep it:
                // it produces zero-length edges / -q representations
                let mut s = seq.clone();
                s.push(ai);
                let script: Vec<Vec<f64>> = s.iter().map(|i| a.states[*i].clone()).collect();
                let case = root_case(root, script);
                let trace = match run_case_dyn(&case) {
                    Ok(t) => t,
                    Err(e) => {
                        ctx.discard(format!("unbuildable: {e}"));
                        return stats;
                    }
                };
                stats.sequences += 1;
                stats.transitions += 1;
                let before = ctx.problems.len();
                check_trace_dyn(&case, &trace, which, true, ctx);
                if ctx.problems.len() > before {
                    // attach the failing sequence to the report
                    let seq_s = format!(" [sample sequence over the alphabet: {s:?}; case: {}]", serde_json::to_string(&case).unwrap_or_default());
                    for p in ctx.problems[before..].iter_mut() {
                        p.1.push_str(&seq_s);
                    }
                    return stats;
                }
                let last = trace.steps.last().unwrap();
                if matches!(last.res, Res::Path(_)) {
                    stats.terminal_ok += 1;
                }
                let h = snap_hash(&last.snap);
                if seen.insert(h) {
                    stats.distinct_states += 1;
                    next.push(s);
                } else {
                    stats.pruned += 1;
                }
            }
        }
        frontier = next;
    }
    stats
}

pub fn enumerate_roots(depth: usize, planners: &[PlannerTag], emit: &mut dyn FnMut(Root)) {
    for kind in ALL_KINDS {
        let a = alphabet(kind);
        let nw = worlds(&a).len();
        for planner in planners {
            let radii: &[f64] = if *planner == PlannerTag::RRTStar {
                &[0.5, 1.0, 1.5, 3.0]
            } else {
                &[1.0]
            };
            for world in 0..nw {
                for rf in radii {
                    for gb in [0.0, 1.0] {
                        // with goal bias 1 every sample is the goal target: depth beyond 3 adds nothing
                        let d = if gb == 1.0 { depth.min(3) } else { depth };
                        emit(Root {
                            kind,
                            planner: *planner,
                            world,
                            goal_bias: gb,
                            radius_factor: *rf,
                            depth: d,
                        });
                    }
                }
            }
        }
    }
}

pub fn explore_prop_check(root: &Root, which: Which, ctx: &mut Ctx) {
    let stats = explore(root, which, ctx);
    ctx.label(format!("planner:{:?}", root.planner));
    ctx.label(format!("kind:{:?}", root.kind));
    ctx.count("sequences", stats.sequences);
    ctx.count("distinct-snapshots", stats.distinct_states);
    ctx.count("pruned-duplicate-snapshots", stats.pruned);
    ctx.count("transitions-checked", stats.transitions);
    ctx.count("sequences-ending-in-Ok", stats.terminal_ok);
    ctx.nontrivial = stats.distinct_states >= 4;
}

#[allow(dead_code)]
fn _unused(_: &mut Ch) {}
