//! Planner-case generator shared by C01–C08, C15–C18 and helpers over traces.

use crate::choice::Ch;
use crate::exec::*;
use crate::flat::*;
use crate::gen::*;
use crate::world::*;
use crate::wrap::GoalCfg;
use oxmpl::base::space::StateSpace;

#[derive(Clone, Copy, Debug, PartialEq)]
pub enum StartMode {
    Valid,
    /// start a hair inside an obstacle (penetration depth < 0.1 L)
    Marginal,
}
#[derive(Clone, Copy, Debug, PartialEq)]
pub enum GoalMode {
    Clear,
    /// an obstacle covers the goal target (RRT-Connect's root / goal-biased samples are invalid)
    TargetBlocked,
    /// an obstacle overlaps part of the goal region
    Overlap,
}

#[derive(Clone, Debug)]
pub struct Profile {
    pub bounds: BoundsMode,
    pub p_marginal_start: f64,
    pub p_goal_blocked: f64,
    pub p_goal_overlap: f64,
    /// probability of thin walls (thicker than L, thinner than the step)
    pub p_thin_walls: f64,
    pub max_obst: usize,
    pub histories: bool,
    pub rng_goal: f64,
    pub planners: Vec<PlannerTag>,
    pub kinds: Vec<KindTag>,
    pub budget_scale: f64,
    pub big_radius: bool,
    pub seam_bias: f64,
    /// probability of allowing non-convex bounded regions although `bounds` asks for convex ones
    pub p_nonconvex: f64,
    /// probability of 1-2 extra (unused) start states, each valid or not
    pub p_extra_starts: f64,
    /// with histories: probability that problem 2 comes with its own, stricter world
    pub p_world2: f64,
    /// PRM: probability of the query history setup, construct, solve, set_problem(P2), solve
    pub p_prm_requery: f64,
    /// probability that one rotation / later component of a composite space gets weight 0
    pub p_zero_weight: f64,
    /// probability of an unusual start: a non-canonical angle (+-2 pi k), a negated quaternion,
    /// or an R^n coordinate a little outside its box (planners never consult the bounds)
    pub p_odd_start: f64,
    /// spaces with an SO3 component: probability that the goal target is a rotation close to
    /// the start given by the opposite-sign quaternion, with a step below their separation
    pub p_so3_signflip: f64,
    /// probability that the caller re-tunes the planner's public parameter fields between two
    /// calls (an `Op::SetParams` before one of the later calls)
    pub p_retune: f64,
    /// with histories: probability that problem 2 lives in its own, tighter space object
    /// (`PlanCase::space2`); `set_problem_definition` is then replaced by `setup`
    pub p_space2: f64,
    /// probability of a second goal target a little *outside* the bounds of a box coordinate, in
    /// a world whose checker rejects everything beyond that bound (the goal region sticks out of
    /// the space; its outer target is an invalid goal sample)
    pub p_outside_target: f64,
    /// probability of planning on the library's own space object instead of the recording
    /// wrapper (`PlanCase::raw_space`); only for oracles that do not need the sample log
    pub p_raw_space: f64,
}
impl Default for Profile {
    fn default() -> Self {
        Profile {
            bounds: BoundsMode::BoundedConvex,
            p_marginal_start: 0.0,
            p_goal_blocked: 0.0,
            p_goal_overlap: 0.0,
            p_thin_walls: 0.3,
            max_obst: 4,
            histories: false,
            rng_goal: 0.3,
            planners: ALL_PLANNERS.to_vec(),
            kinds: ALL_KINDS.to_vec(),
            budget_scale: 1.0,
            big_radius: false,
            seam_bias: 0.0,
            p_nonconvex: 0.0,
            p_extra_starts: 0.15,
            p_world2: 0.3,
            p_prm_requery: 0.0,
            p_so3_signflip: 0.0,
            p_zero_weight: 0.07,
            p_odd_start: 0.06,
            p_retune: 0.0,
            p_space2: 0.0,
            p_outside_target: 0.05,
            p_raw_space: 0.0,
        }
    }
}

fn lvs_k<K: Kind>(cfg: &SpaceCfg) -> Option<f64> {
    K::build(cfg)
        .ok()
        .map(|s| s.get_longest_valid_segment_length())
}
pub fn lvs_of(cfg: &SpaceCfg) -> Option<f64> {
    crate::with_kind!(cfg.kind, lvs_k, cfg)
}

/// A point at reference distance ~`dist` from `from`, in the direction of a random in-bounds state.
pub fn point_at(ch: &mut Ch, cfg: &SpaceCfg, from: &[f64], dist: f64) -> Vec<f64> {
    let q = gen_state_in(ch, cfg);
    let d = ref_distance(cfg, from, &q);
    if d <= dist || d == 0.0 {
        return q;
    }
    ref_interpolate(cfg, from, &q, dist / d)
}

pub fn gen_goal(ch: &mut Ch, cfg: &SpaceCfg, extent: f64, rng_goal: f64) -> GoalCfg {
    let n = 1 + ch.weighted(&[5.0, 1.0, 1.0]);
    let targets = (0..n).map(|_| gen_state_in(ch, cfg)).collect();
    GoalCfg {
        targets,
        radius: ch.log_range(0.02, 0.3) * extent,
        rng_sampler: ch.prob(rng_goal),
        half: ch.prob(0.12),
    }
}

fn gen_obstacle(
    ch: &mut Ch,
    cfg: &SpaceCfg,
    start: &[f64],
    target: &[f64],
    lvs: f64,
    step: f64,
    extent: f64,
    thin: bool,
) -> Obst {
    // a point roughly between start and target, jittered
    let u = ch.range(0.15, 0.85);
    let mid = ref_interpolate(cfg, start, target, u);
    let jitter = ch.unit() * 0.3 * extent;
    let c = point_at(ch, cfg, &mid, jitter);
    let thickness = if thin {
        // thicker than the resolution, thinner than the step (when possible)
        let hi = step.max(lvs * 1.5);
        ch.range(lvs * 1.05, hi)
    } else {
        match ch.weighted(&[1.0, 2.0, 3.0, 2.0]) {
            0 => ch.range(0.02, 0.1) * lvs,
            1 => ch.range(0.1, 1.0) * lvs,
            2 => ch.range(1.0, 4.0) * lvs,
            _ => ch.range(0.05, 0.25) * extent,
        }
    };
    let offs = cfg.offsets();
    // candidate structured obstacles on a random component
    let mut ci = ch.below(cfg.comps.len());
    // a component of weight 0 is invisible to the metric but not to the checker: put half of
    // the structured obstacles there
    let zero_w = cfg.weights.iter().position(|w| *w == 0.0);
    if let Some(z) = zero_w {
        if ch.prob(0.5) {
            ci = z;
        }
    }
    let comp = &cfg.comps[ci];
    let w = cfg.weights[ci];
    let mut shape = ch.weighted(&[3.0, 2.0, 2.0, 1.0]);
    if zero_w == Some(ci) && shape != 1 && shape != 2 {
        shape = 1 + ch.below(2);
    }
    // width of the obstacle in the component's own units: `thickness` is a distance, so it is
    // divided by the weight; with weight 0 a share of the component's natural size is used
    let own = |ch: &mut Ch, natural: f64| -> f64 {
        if w > 0.0 {
            thickness / w
        } else {
            natural * ch.range(0.05, 0.45)
        }
    };
    match (shape, comp) {
        (1, Comp::RV { dim, bounds }) => {
            // wall across coordinate k, with a door in another coordinate if dim > 1
            let k = ch.below(*dim);
            let idx = offs[ci] + k;
            let (blo, bhi) = bounds.as_ref().map(|b| b[k]).unwrap_or((-10.0, 10.0));
            let half = own(ch, bhi - blo) / 2.0;
            let door = if *dim > 1 && ch.prob(0.8) {
                let j = (k + 1 + ch.below(dim - 1)) % dim;
                let (lo, hi) = bounds.as_ref().map(|b| b[j]).unwrap_or((-10.0, 10.0));
                let wdoor = (hi - lo) * ch.range(0.05, 0.4);
                let a = ch.range(lo, hi - wdoor);
                Some((offs[ci] + j, a, a + wdoor))
            } else {
                None
            };
            Obst::Wall {
                idx,
                lo: c[idx] - half,
                hi: c[idx] + half,
                door,
            }
        }
        (1, Comp::SO2 { .. }) | (2, Comp::SO2 { .. }) => Obst::Arc {
            idx: offs[ci],
            c: c[offs[ci]],
            half: own(ch, std::f64::consts::PI) / 2.0,
        },
        (1, Comp::SO3 { .. }) | (2, Comp::SO3 { .. }) => {
            let o = offs[ci];
            Obst::Cone {
                off: o,
                c: [c[o], c[o + 1], c[o + 2], c[o + 3]],
                r: own(ch, std::f64::consts::PI) / 2.0,
            }
        }
        (2, Comp::RV { dim, bounds }) => {
            // box on all coordinates of this component
            let dims = (0..*dim)
                .map(|k| {
                    let (blo, bhi) = bounds.as_ref().map(|b| b[k]).unwrap_or((-10.0, 10.0));
                    let half = own(ch, bhi - blo) / 2.0 * ch.range(0.5, 3.0);
                    (offs[ci] + k, c[offs[ci] + k] - half, c[offs[ci] + k] + half)
                })
                .collect();
            Obst::Box { dims }
        }
        _ => Obst::Ball {
            c,
            r: thickness / 2.0,
        },
    }
}

/// Inserts one `SetParams` (new in-range values, 0.01-100 x the old step / radius) before one of the
/// calls after the first setup.
pub fn insert_retune(ch: &mut Ch, ops: &mut Vec<Op>, step: f64, goal_bias: f64, radius: f64) {
    if ops.len() < 2 {
        return;
    }
    let at = 1 + ch.below(ops.len() - 1);
    let f = |ch: &mut Ch, v: f64| {
        match ch.weighted(&[2.0, 5.0, 2.0, 1.0]) {
            0 => v,
            1 => v * ch.log_range(0.2, 4.0),
            2 => v * ch.log_range(4.0, 100.0),
            _ => v * ch.log_range(0.01, 0.2),
        }
    };
    let nb = match ch.weighted(&[2.0, 1.0, 1.0, 3.0]) {
        0 => goal_bias,
        1 => 0.0,
        2 => 1.0,
        _ => ch.range(0.02, 0.6),
    };
    let op = Op::SetParams {
        step: f(ch, step),
        goal_bias: nb,
        radius: f(ch, radius),
    };
    ops.insert(at, op);
}

/// The same space with every bounded component's bounds tightened (a sub-box, a sub-interval, a
/// narrower cone about the same centre); kind, layout, weights and fractions unchanged.
pub fn tighten_space(ch: &mut Ch, cfg: &SpaceCfg) -> SpaceCfg {
    let mut out = cfg.clone();
    for c in out.comps.iter_mut() {
        match c {
            Comp::RV { bounds: Some(b), .. } => {
                for (lo, hi) in b.iter_mut() {
                    let w = *hi - *lo;
                    let (a, z) = (ch.range(0.0, 0.35), ch.range(0.0, 0.35));
                    let (nlo, nhi) = (*lo + a * w, *hi - z * w);
                    if nlo < nhi {
                        *lo = nlo;
                        *hi = nhi;
                    }
                }
            }
            Comp::SO2 { bounds } => {
                let (lo, hi) = bounds.unwrap_or((-std::f64::consts::PI, std::f64::consts::PI));
                let (lo, hi) = (lo.max(-std::f64::consts::PI), hi.min(std::f64::consts::PI));
                let w = hi - lo;
                let (a, z) = (ch.range(0.05, 0.35), ch.range(0.05, 0.35));
                if w > 0.0 {
                    *bounds = Some((lo + a * w, hi - z * w));
                }
            }
            Comp::SO3 { bounds } => {
                let (centre, r) = bounds.unwrap_or(([0.0, 0.0, 0.0, 1.0], std::f64::consts::PI));
                let nr = (r.min(std::f64::consts::PI) * ch.range(0.4, 0.9)).max(0.3);
                *bounds = Some((centre, nr.min(r)));
            }
            _ => {}
        }
    }
    out
}

pub fn default_budget(ch: &mut Ch, planner: PlannerTag, scale: f64) -> u64 {
    let b = match planner {
        PlannerTag::RRT => ch.int(200, 1500),
        PlannerTag::RRTConnect => ch.int(200, 1000),
        PlannerTag::RRTStar => ch.int(80, 350),
        PlannerTag::PRM => ch.int(40, 300),
    };
    ((b as f64) * scale).max(1.0) as u64
}

pub fn gen_plan_case(ch: &mut Ch, prof: &Profile) -> PlanCase {
    let kind = ch.pick(&prof.kinds);
    let planner = ch.pick(&prof.planners);
    let bounds_mode = if prof.bounds == BoundsMode::BoundedConvex && ch.prob(prof.p_nonconvex) {
        BoundsMode::Bounded
    } else {
        prof.bounds
    };
    let mut space = gen_space(ch, kind, bounds_mode, true);
    if space.weights.len() > 1 && ch.prob(prof.p_zero_weight) {
        // SE2/SE3: the rotation weight; compound: any component but the first
        let i = 1 + ch.below(space.weights.len() - 1);
        space.weights[i] = 0.0;
    }
    let extent = approx_extent(&space).max(1e-9);
    let lvs = lvs_of(&space).unwrap_or(extent * 0.05);
    let step = match ch.weighted(&[7.0, 1.5, 1.5]) {
        0 => ch.log_range(0.05, 0.5) * extent,
        1 => ch.log_range(0.5, 10.0) * extent,
        _ => ch.log_range(1e-3, 0.05) * extent,
    };
    let goal_bias = match ch.weighted(&[2.0, 1.0, 7.0]) {
        0 => 0.0,
        1 => 1.0,
        _ => ch.range(0.02, 0.6),
    };
    let radius = match planner {
        PlannerTag::PRM => ch.log_range(0.1, 0.7) * extent,
        _ => {
            if prof.big_radius {
                ch.range(1.0, 4.0) * step
            } else {
                ch.range(0.5, 3.0) * step
            }
        }
    };
    let mut start = gen_state_in(ch, &space);
    let mut goal = gen_goal(ch, &space, extent, prof.rng_goal);
    if prof.seam_bias > 0.0 && ch.prob(prof.seam_bias) {
        // put start and goal on opposite sides of the +-pi seam of the first SO2 component
        let offs = space.offsets();
        for (i, c) in space.comps.iter().enumerate() {
            if let Comp::SO2 { bounds } = c {
                let (lo, hi) = bounds.unwrap_or((-std::f64::consts::PI, std::f64::consts::PI));
                let (lo, hi) = (
                    lo.max(-std::f64::consts::PI),
                    hi.min(std::f64::consts::PI),
                );
                let m = (hi - lo) * 0.15;
                start[offs[i]] = ch.range(lo + 1e-6, lo + m);
                goal.targets[0][offs[i]] = ch.range(hi - m, hi - 1e-6);
                break;
            }
        }
    }
    if ch.prob(prof.p_odd_start) {
        // (the C04 profile, whose premise is a start inside the bounds, gets the other
        // representations of an in-bounds rotation only, never a point outside a box)
        let offs = space.offsets();
        let i = ch.below(space.comps.len());
        let o = offs[i];
        match &space.comps[i] {
            Comp::RV { bounds: Some(b), .. } if prof.bounds != BoundsMode::Bounded => {
                let k = ch.below(b.len());
                let (lo, hi) = b[k];
                start[o + k] = if ch.prob(0.5) { hi + 0.05 * (hi - lo) } else { lo - 0.05 * (hi - lo) };
            }
            Comp::SO2 { .. } => {
                start[o] += 2.0 * std::f64::consts::PI * ch.pick(&[1.0, -1.0, 2.0, -2.0, 3.0]);
            }
            Comp::SO3 { .. } => {
                for k in 0..4 {
                    start[o + k] = -start[o + k];
                }
            }
            _ => {}
        }
    }
    let mut step = step;
    if ch.prob(prof.p_so3_signflip) {
        let offs = space.offsets();
        for (i, c) in space.comps.iter().enumerate() {
            if let Comp::SO3 { .. } = c {
                let o = offs[i];
                let q0 = [start[o], start[o + 1], start[o + 2], start[o + 3]];
                let ang = ch.range(0.02, 0.06);
                let q = quat_at_angle(ch, &q0, ang);
                for k in 0..4 {
                    goal.targets[0][o + k] = -q[k];
                }
                // other components: same as the start, so that the rotation is what separates them
                for k in 0..start.len() {
                    if k < o || k >= o + 4 {
                        goal.targets[0][k] = start[k];
                    }
                }
                let w = space.weights[i].abs().max(1e-9);
                step = ang * w * ch.range(0.15, 0.6);
                goal.radius = ang * w * 0.1;
                break;
            }
        }
    }
    let target = goal.targets[0].clone();

    // obstacles
    let mut world = World::default();
    let n_obst = ch.below(prof.max_obst + 1);
    for _ in 0..n_obst {
        let thin = ch.prob(prof.p_thin_walls);
        world
            .obst
            .push(gen_obstacle(ch, &space, &start, &target, lvs, step, extent, thin));
    }
    // the start must be valid in the base world: drop whatever covers it
    world.obst.retain(|o| !o.hits(&space, &start));

    let goal_mode = {
        let u = ch.unit();
        if u < prof.p_goal_blocked {
            GoalMode::TargetBlocked
        } else if u < prof.p_goal_blocked + prof.p_goal_overlap {
            GoalMode::Overlap
        } else {
            GoalMode::Clear
        }
    };
    match goal_mode {
        GoalMode::Clear => {
            // every goal target valid
            let ts = goal.targets.clone();
            world.obst.retain(|o| !ts.iter().any(|t| o.hits(&space, t)));
        }
        GoalMode::TargetBlocked => {
            let r = goal.radius * ch.range(0.2, 0.9);
            let o = Obst::Ball {
                c: target.clone(),
                r,
            };
            if !o.hits(&space, &start) {
                world.obst.push(o);
            }
        }
        GoalMode::Overlap => {
            let off = goal.radius * ch.range(0.6, 1.4);
            let c = point_at(ch, &space, &target, off);
            let o = Obst::Ball {
                c,
                r: goal.radius * ch.range(0.4, 1.0),
            };
            if !o.hits(&space, &start) {
                world.obst.push(o);
            }
        }
    }
    if ch.prob(prof.p_outside_target) {
        let offs = space.offsets();
        let rvs: Vec<usize> = (0..space.comps.len())
            .filter(|i| matches!(&space.comps[*i], Comp::RV { bounds: Some(_), .. }) && space.weights[*i] > 0.0)
            .collect();
        if !rvs.is_empty() {
            let ci = rvs[ch.below(rvs.len())];
            if let Comp::RV { bounds: Some(b), .. } = &space.comps[ci] {
                let k = ch.below(b.len());
                let (lo, hi) = b[k];
                let idx = offs[ci] + k;
                let out_by = ch.range(0.05, 0.6) * goal.radius / space.weights[ci];
                let mut t2 = goal.targets[0].clone();
                let far = 10.0 * (hi - lo);
                let wall = if ch.prob(0.5) {
                    t2[idx] = hi + out_by;
                    Obst::Wall { idx, lo: hi + 1e-9 * (hi - lo), hi: hi + far, door: None }
                } else {
                    t2[idx] = lo - out_by;
                    Obst::Wall { idx, lo: lo - far, hi: lo - 1e-9 * (hi - lo), door: None }
                };
                // the in-bounds target moves to the bound so that the two are one goal region
                goal.targets[0][idx] = if t2[idx] > hi { hi } else { lo };
                if !wall.hits(&space, &start) && !world.obst.iter().any(|o| o.hits(&space, &goal.targets[0])) {
                    goal.targets.push(t2);
                    world.obst.push(wall);
                }
            }
        }
    }
    let start_mode = if ch.prob(prof.p_marginal_start) {
        StartMode::Marginal
    } else {
        StartMode::Valid
    };
    if start_mode == StartMode::Marginal {
        // a ball whose boundary lies `depth` beyond the start
        let r = ch.range(0.5, 3.0) * lvs;
        let depth = ch.range(0.001, 0.099) * lvs;
        let c = point_at(ch, &space, &start, (r - depth).max(0.0));
        world.obst.push(Obst::Ball { c, r });
    }

    let budget = default_budget(ch, planner, prof.budget_scale);
    let mut ops = vec![Op::Setup(0)];
    if planner == PlannerTag::PRM {
        ops.push(Op::Construct { budget });
    }
    ops.push(Op::Solve { budget });
    let mut problems = vec![Problem {
        start,
        goal,
        extra_starts: vec![],
        no_start: false,
    }];

    let mut space2: Option<SpaceCfg> = None;
    if prof.histories && ch.prob(prof.p_space2) {
        space2 = Some(tighten_space(ch, &space));
    }
    if prof.histories {
        let sp2 = space2.as_ref().unwrap_or(&space);
        let s2 = gen_state_in(ch, sp2);
        let g2 = gen_goal(ch, sp2, extent, prof.rng_goal);
        world.obst.retain(|o| !o.hits(&space, &s2));
        if ch.prob(prof.p_marginal_start) {
            // the second problem's start marginally inside an obstacle (depth < 0.1 L), unless
            // that obstacle would also cover the first problem's start
            let r = ch.range(0.5, 3.0) * lvs;
            let depth = ch.range(0.001, 0.099) * lvs;
            let c = point_at(ch, &space, &s2, (r - depth).max(0.0));
            let o = Obst::Ball { c, r };
            if !o.hits(&space, &problems[0].start) {
                world.obst.push(o);
            }
        }
        problems.push(Problem {
            start: s2,
            goal: g2,
            extra_starts: vec![],
            no_start: false,
        });
        ops = gen_history(ch, planner, prof.budget_scale);
        if space2.is_some() {
            // a problem in another space is installed by setup(), never by swapping the problem
            // definition under a roadmap built elsewhere
            for o in ops.iter_mut() {
                if let Op::SetProblem(i) = o {
                    *o = Op::Setup(*i);
                }
            }
        }
    }
    if ch.prob(prof.p_retune) {
        insert_retune(ch, &mut ops, step, goal_bias, radius);
    }
    // seeds: mostly arbitrary, sometimes the special values real callers use
    let seed = Some(match ch.weighted(&[8.0, 1.0, 0.5, 0.5]) {
        0 => ch.seed(),
        1 => 0,
        2 => 1,
        _ => u64::MAX,
    });
    if ch.prob(prof.p_extra_starts) {
        let n = 1 + ch.below(2);
        for _ in 0..n {
            let e = gen_state_in(ch, &space);
            problems[0].extra_starts.push(e);
        }
    }
    let mut world2 = None;
    if prof.histories && ch.prob(prof.p_world2) {
        // a stricter world for problem 2: the base world plus one more obstacle (which may or
        // may not block something that matters)
        let mut w = world.clone();
        let p2 = &problems[1];
        let o = if ch.prob(0.5) {
            gen_obstacle(ch, &space, &p2.start, &p2.goal.targets[0], lvs, step, extent, false)
        } else {
            let c = ref_interpolate(&space, &p2.start, &p2.goal.targets[0], 0.5);
            Obst::Ball {
                c,
                r: ch.range(0.05, 0.3) * extent,
            }
        };
        if !o.hits(&space, &p2.start) {
            w.obst.push(o);
            world2 = Some(w);
        }
    }
    if planner == PlannerTag::PRM && !prof.histories && ch.prob(prof.p_prm_requery) {
        let s2 = gen_state_in(ch, &space);
        let g2 = gen_goal(ch, &space, extent, prof.rng_goal);
        world.obst.retain(|o| !o.hits(&space, &s2));
        problems.push(Problem {
            start: s2,
            goal: g2,
            extra_starts: vec![],
            no_start: false,
        });
        ops = vec![
            Op::Setup(0),
            Op::Construct { budget },
            Op::Solve { budget },
            Op::SetProblem(1),
            Op::Solve { budget },
        ];
    }
    PlanCase {
        space,
        world,
        problems,
        planner,
        step,
        goal_bias,
        radius,
        seed,
        script: None,
        ops,
        space_fail_at: None,
        goal_fail_at: None,
        empty_starts: false,
        query_cap: 400_000,
        world2,
        space2,
        fault_persists: false,
        raw_space: ch.prob(prof.p_raw_space),
        prm_timeout: None,
    }
}

pub fn gen_history(ch: &mut Ch, planner: PlannerTag, scale: f64) -> Vec<Op> {
    let n = 2 + ch.below(6);
    let mut ops = Vec::new();
    // well-formed prefix most of the time
    if ch.prob(0.9) {
        ops.push(Op::Setup(ch.below(2)));
        if planner == PlannerTag::PRM {
            ops.push(Op::Construct {
                budget: default_budget(ch, planner, scale),
            });
        }
    }
    for _ in 0..n {
        let k = if planner == PlannerTag::PRM {
            ch.weighted(&[2.0, 4.0, 2.0, 2.0])
        } else {
            ch.weighted(&[2.0, 5.0, 0.0, 0.0])
        };
        ops.push(match k {
            0 => Op::Setup(ch.below(2)),
            1 => Op::Solve {
                budget: default_budget(ch, planner, scale),
            },
            2 => Op::Construct {
                budget: default_budget(ch, planner, scale),
            },
            _ => Op::SetProblem(ch.below(2)),
        });
    }
    ops
}

// ---------------------------------------------------------------------------------------------
// Reference model of the planner API state (which problem is current, is it set up, ...)
// ---------------------------------------------------------------------------------------------

#[derive(Clone, Debug, Default)]
pub struct ApiModel {
    pub problem: Option<usize>,
    /// index of the world whose checker is installed (see PlanCase::world_by_index)
    pub world: usize,
    pub checker: bool,
    pub roadmap_built: bool,
    pub roadmap_len: usize,
}

/// Walks a trace, calling `f(step index, model-before-the-step, step)`.
pub fn walk_model(case: &PlanCase, trace: &Trace, mut f: impl FnMut(usize, &ApiModel, &Step)) {
    let mut m = ApiModel::default();
    let np = case.problems.len();
    for (i, st) in trace.steps.iter().enumerate() {
        f(i, &m, st);
        if matches!(st.res, Res::Skipped | Res::Panic { .. }) {
            if matches!(st.res, Res::Panic { .. }) {
                break;
            }
            continue;
        }
        match &st.op {
            Op::Setup(p) => {
                m.problem = Some(*p % np);
                m.world = case.world_index_for(*p % np);
                m.checker = true;
                m.roadmap_built = false;
                m.roadmap_len = 0;
            }
            Op::SetProblem(p) => {
                if case.planner == PlannerTag::PRM {
                    m.problem = Some(*p % np);
                }
            }
            Op::Construct { .. } | Op::ConstructTimed { .. } => {
                if case.planner == PlannerTag::PRM && m.checker && m.problem.is_some() {
                    m.roadmap_built = true;
                }
            }
            _ => {}
        }
        if let Snap::Roadmap(r) = &st.snap {
            m.roadmap_len = r.len();
        }
    }
}

/// Index of the world whose checker is in effect while each step runs (for a setup step: the one
/// it installs).
pub fn step_worlds(case: &PlanCase, trace: &Trace) -> Vec<usize> {
    let mut out = vec![0; trace.steps.len()];
    walk_model(case, trace, |i, m, st| {
        out[i] = match st.op {
            Op::Setup(p) => case.world_index_for(p % case.problems.len()),
            _ => m.world,
        };
    });
    // steps after a panic keep the last value
    out
}

pub struct KSpace<K: Kind> {
    pub sp: K::SP,
    pub cfg: SpaceCfg,
}
impl<K: Kind> KSpace<K> {
    pub fn new(cfg: &SpaceCfg) -> Option<Self> {
        K::build(cfg).ok().map(|sp| KSpace {
            sp,
            cfg: cfg.clone(),
        })
    }
    pub fn d(&self, a: &[f64], b: &[f64]) -> f64 {
        self.sp
            .distance(&K::dec(&self.cfg, a), &K::dec(&self.cfg, b))
    }
    pub fn interp(&self, a: &[f64], b: &[f64], t: f64) -> Vec<f64> {
        let (x, y) = (K::dec(&self.cfg, a), K::dec(&self.cfg, b));
        let mut o = x.clone();
        self.sp.interpolate(&x, &y, t, &mut o);
        K::enc(&o)
    }
    pub fn goal_satisfied(&self, g: &GoalCfg, s: &[f64]) -> bool {
        crate::wrap::goal_pred(g, s, |i| self.d(s, &g.targets[i]))
    }
}

/// Per-kind tolerance of the constant-speed law / on-segment test (DESIGN.md section 4).
pub fn seg_tol(cfg: &SpaceCfg, d: f64) -> f64 {
    let has_so3 = cfg.comps.iter().any(|c| matches!(c, Comp::SO3 { .. }));
    let wmax = cfg.weights.iter().fold(1.0f64, |m, w| m.max(w.abs()));
    if has_so3 {
        5e-6 * wmax + 1e-9 * (1.0 + d)
    } else {
        1e-9 * (1.0 + d)
    }
}
