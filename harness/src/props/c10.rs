//! C10 — interpolation traces the shortest path at constant speed.

use super::c09::{gen_any_state, gen_near, hard_classes, has_rv_underflow_floor};
use super::lattice::*;
use crate::choice::Ch;
use crate::flat::*;
use crate::gen::*;
use crate::runner::*;
use oxmpl::base::space::StateSpace;
use serde::{Deserialize, Serialize};
use std::f64::consts::PI;

#[derive(Clone, Debug, Serialize, Deserialize)]
pub struct InterpCase {
    pub space: SpaceCfg,
    pub a: Vec<f64>,
    pub b: Vec<f64>,
    pub t: f64,
    /// initial contents of the output state (must not influence the result)
    pub garbage: Vec<f64>,
}

/// tolerance of the constant-speed law, per DESIGN.md section 4, plus representation slack for
/// non-canonical angles
fn law_tol(cfg: &SpaceCfg, a: &[f64], b: &[f64], d: f64) -> f64 {
    let mut t = 0.0;
    let mut o = 0;
    for (c, w) in cfg.comps.iter().zip(&cfg.weights) {
        let n = c.width();
        let w = w.abs();
        t += match c {
            Comp::RV { .. } => 1e-9 * (1.0 + d) + 8.0 * f64::EPSILON * w * (ref_rv_distance(&a[o..o + n], &vec![0.0; n]) + ref_rv_distance(&b[o..o + n], &vec![0.0; n])),
            Comp::SO2 { .. } => (1e-9 * (1.0 + d)) + w * 16.0 * f64::EPSILON * (a[o].abs() + b[o].abs()),
            Comp::SO3 { .. } => 5e-6 * w.max(1.0),
        };
        o += n;
    }
    t + has_rv_underflow_floor(cfg)
}

/// Is the shortest path between a and b ambiguous (or numerically so) in some component?
fn ambiguous(cfg: &SpaceCfg, a: &[f64], b: &[f64]) -> bool {
    let mut o = 0;
    for c in &cfg.comps {
        let n = c.width();
        match c {
            Comp::SO2 { .. } => {
                let slack = 1e-9 + 16.0 * f64::EPSILON * (a[o].abs() + b[o].abs());
                if PI - ref_so2_distance(a[o], b[o]) < slack {
                    return true;
                }
            }
            Comp::SO3 { .. } => {
                if PI - ref_so3_distance(&a[o..o + 4], &b[o..o + 4]) < 1e-6 {
                    return true;
                }
            }
            _ => {}
        }
        o += n;
    }
    false
}

fn check_k<K: Kind>(case: &InterpCase, ctx: &mut Ctx) {
    let cfg = &case.space;
    let sp = match K::build(cfg) {
        Ok(s) => s,
        Err(e) => {
            ctx.discard(format!("build: {e}"));
            return;
        }
    };
    let kind = format!("{:?}", cfg.kind);
    let (a, b) = (K::dec(cfg, &case.a), K::dec(cfg, &case.b));
    let t = case.t;
    let mut out = K::dec(cfg, &case.garbage);
    sp.interpolate(&a, &b, t, &mut out);
    let m = K::enc(&out);
    // aliasing: out pre-filled with `from`
    let mut out2 = a.clone();
    sp.interpolate(&a, &b, t, &mut out2);
    let m2 = K::enc(&out2);
    if !bits_eq(&m, &m2) {
        ctx.fail(
            format!("C10:{kind}:output-depends-on-initial-out"),
            format!("interpolate wrote {m:?} into a garbage-filled state but {m2:?} into a copy of `from`"),
        );
    }
    if m.iter().any(|x| x.is_nan()) {
        ctx.fail(format!("C10:{kind}:nan"), format!("interpolate({:?}, {:?}, {t}) = {m:?}", case.a, case.b));
        return;
    }
    let d = ref_distance(cfg, &case.a, &case.b);
    let tol = law_tol(cfg, &case.a, &case.b, d);
    let dam = ref_distance(cfg, &case.a, &m);
    let dmb = ref_distance(cfg, &m, &case.b);
    if t == 0.0 && dam > tol {
        ctx.fail(format!("C10:{kind}:t0-not-from"), format!("d(interpolate(a,b,0), a) = {dam:e} > {tol:e}"));
    }
    if t == 1.0 && dmb > tol {
        ctx.fail(format!("C10:{kind}:t1-not-to"), format!("d(interpolate(a,b,1), b) = {dmb:e} > {tol:e}"));
    }
    if (dam - t * d).abs() > tol || (dmb - (1.0 - t) * d).abs() > tol {
        ctx.fail(
            format!("C10:{kind}:not-constant-speed-shortest"),
            format!(
                "a={:?} b={:?} t={t}: d(a,b)={d:e}, d(a,m)={dam:e} (want {:e}), d(m,b)={dmb:e} (want {:e}), tol {tol:e}; m={m:?}",
                case.a, case.b, t * d, (1.0 - t) * d
            ),
        );
    }
    // the space's own metric must agree (so a metric bug cannot hide an interpolation bug)
    let own = sp.distance(&a, &out);
    if (own - t * d).abs() > tol + dist_tol(cfg, &case.a, &m) {
        ctx.fail(
            format!("C10:{kind}:not-constant-speed-own-metric"),
            format!("space.distance(a, m) = {own:e}, want t*d = {:e}", t * d),
        );
    }
    // canonical form
    let mut o = 0;
    for c in &cfg.comps {
        let n = c.width();
        match c {
            Comp::SO2 { .. } => {
                if !(m[o] >= -PI && m[o] <= PI) {
                    ctx.fail(format!("C10:{kind}:angle-not-canonical"), format!("result angle {:e} outside [-pi, pi]", m[o]));
                }
            }
            Comp::SO3 { .. } => {
                let nn = quat_norm(&m[o..o + 4]);
                if (nn - 1.0).abs() > 1e-12 {
                    ctx.fail(format!("C10:{kind}:quaternion-not-unit"), format!("|m| = {nn:e} for unit inputs (t = {t})"));
                }
            }
            _ => {}
        }
        o += n;
    }
    let amb = ambiguous(cfg, &case.a, &case.b);
    {
        // reversal: "interpolating from b to a at 1-t gives the same configuration" - also for
        // exactly antipodal pairs, where it pins down that both directions pick the same one of
        // the two shortest paths
        let mut rev = K::dec(cfg, &case.garbage);
        sp.interpolate(&b, &a, 1.0 - t, &mut rev);
        let r = K::enc(&rev);
        let dr = ref_distance(cfg, &m, &r);
        if !(dr <= 2.0 * tol) {
            ctx.fail(
                format!("C10:{kind}:reversal-mismatch"),
                format!("interpolate(a,b,t) = {m:?} but interpolate(b,a,1-t) = {r:?} (distance {dr:e})"),
            );
        }
    }
    if !amb {
        // differential against the reference interpolation
        let rm = ref_interpolate(cfg, &case.a, &case.b, t);
        let dd = ref_distance(cfg, &m, &rm);
        if !(dd <= 2.0 * tol) {
            ctx.fail(
                format!("C10:{kind}:differs-from-reference"),
                format!("interpolate = {m:?}, reference = {rm:?} (distance {dd:e}, tol {:e})", 2.0 * tol),
            );
        }
    } else {
        ctx.label("ambiguous-shortest-path");
    }
    ctx.label(format!("kind:{kind}"));
    let hard = hard_classes(cfg, &case.a, &case.b);
    for h in &hard {
        ctx.label(*h);
    }
    if t == 0.0 || t == 1.0 {
        ctx.label("t-endpoint");
    }
    ctx.nontrivial = !bits_eq(&case.a, &case.b) && t > 0.0 && t < 1.0 && !hard.is_empty();
}

pub fn gen_garbage(ch: &mut Ch, cfg: &SpaceCfg) -> Vec<f64> {
    (0..cfg.width())
        .map(|_| ch.pick(&[0.0, 123.456, -7.0, 1e10]))
        .collect()
}

pub struct C10;
impl Prop for C10 {
    type Case = InterpCase;
    const ID: &'static str = "C10";
    const PART: &'static str = "interpolation";
    const RULE: &'static str = "lattice: all ordered pairs over the C09 lattices x t in {0, ulp, 0.25, 1/3, 0.5, 1-ulp, 1}; random: proptest choice sequences -> space of a random kind/layout/weights, pair (50% near, SO3 dot swept through the 0.9995 switch), t uniform / endpoint / step-over-distance. Non-trivial = a != b, 0 < t < 1 and the pair in a hard class (seam crossing, antipodal, non-canonical, negative / near-0 / near-switch dot, |x| > 1e6).";
    fn random_cases(tier: Tier) -> usize {
        tier.pick(3_000_000, 16_000_000)
    }
    fn gen(ch: &mut Ch, _tier: Tier) -> InterpCase {
        let kind = ch.pick(&ALL_KINDS);
        let space = gen_space(ch, kind, BoundsMode::Any, false);
        let a = gen_any_state(ch, &space);
        let mut b = match ch.weighted(&[4.0, 3.0, 2.0]) {
            0 => gen_any_state(ch, &space),
            1 => gen_near(ch, &space, &a),
            _ => {
                // SO3 components: sweep the quaternion dot through the LERP/SLERP switch
                let mut b = gen_any_state(ch, &space);
                let mut o = 0;
                for c in &space.comps {
                    if let Comp::SO3 { .. } = c {
                        let dot = match ch.below(3) {
                            0 => ch.range(0.9990, 1.0),
                            1 => 0.9995 + ch.range(-1e-6, 1e-6),
                            _ => ch.range(-1e-3, 1e-3),
                        };
                        let ang = 2.0 * dot.clamp(-1.0, 1.0).acos();
                        let qa = [a[o], a[o + 1], a[o + 2], a[o + 3]];
                        let q = quat_at_angle(ch, &qa, ang);
                        let s = if ch.prob(0.3) { -1.0 } else { 1.0 };
                        for i in 0..4 {
                            b[o + i] = q[i] * s;
                        }
                    }
                    o += c.width();
                }
                b
            }
        };
        if ch.prob(0.05) {
            b = a.clone();
        }
        let t = match ch.weighted(&[6.0, 1.0, 1.0, 1.0, 1.0]) {
            0 => ch.unit(),
            1 => 0.0,
            2 => 1.0,
            3 => ch.pick(&[f64::EPSILON, 1.0 - f64::EPSILON / 2.0, 0.5, 1.0 / 3.0]),
            _ => {
                // the planners' usage: t = step / distance
                let d = ref_distance(&space, &a, &b);
                if d > 0.0 {
                    (ch.unit() * d / d.max(1e-300)).clamp(0.0, 1.0)
                } else {
                    0.5
                }
            }
        };
        let garbage = gen_garbage(ch, &space);
        InterpCase {
            space,
            a,
            b,
            t,
            garbage,
        }
    }
    fn enumerate(tier: Tier, emit: &mut dyn FnMut(InterpCase)) {
        let ts = [
            0.0,
            f64::EPSILON,
            0.25,
            1.0 / 3.0,
            0.5,
            1.0 - f64::EPSILON / 2.0,
            1.0,
        ];
        for (cfg, states) in lattices(tier == Tier::Thorough) {
            let garbage = vec![123.456; cfg.width()];
            for a in &states {
                for b in &states {
                    for t in ts {
                        emit(InterpCase {
                            space: cfg.clone(),
                            a: a.clone(),
                            b: b.clone(),
                            t,
                            garbage: garbage.clone(),
                        });
                    }
                }
            }
        }
    }
    fn enumeration_is_exhaustive(_tier: Tier) -> bool {
        true
    }
    fn check(case: &InterpCase, ctx: &mut Ctx) {
        crate::with_kind!(case.space.kind, check_k, case, ctx)
    }
}
