//! Lattices of special values for the space-law checks (C09, C10, C11).

use crate::flat::*;
use crate::gen::{next_down, next_up, quat_mul};
use std::f64::consts::PI;

pub fn so2_values() -> Vec<f64> {
    let mut v = vec![
        0.0,
        -0.0,
        PI,
        -PI,
        next_up(PI),
        next_down(PI),
        next_up(-PI),
        next_down(-PI),
        PI / 2.0,
        -PI / 2.0,
        1.5 * PI,
        -1.5 * PI,
        2.0 * PI,
        -2.0 * PI,
        7.0 * PI,
        -7.0 * PI,
        1.0,
        -2.5,
        1e6,
        -1e6,
        1e300,
        -1e300,
        1e-300,
    ];
    v.dedup_by(|a, b| a.to_bits() == b.to_bits());
    v
}

fn unit(q: [f64; 4]) -> [f64; 4] {
    let n = quat_norm(&q);
    [q[0] / n, q[1] / n, q[2] / n, q[3] / n]
}
/// rotation by angle `ang` (SO3 distance) about `axis` applied after `q`
pub fn rot(q: &[f64; 4], axis: [f64; 3], ang: f64) -> [f64; 4] {
    let n = (axis[0] * axis[0] + axis[1] * axis[1] + axis[2] * axis[2]).sqrt();
    let h = ang / 2.0;
    let d = [
        axis[0] / n * h.sin(),
        axis[1] / n * h.sin(),
        axis[2] / n * h.sin(),
        h.cos(),
    ];
    quat_mul(q, &d)
}
pub fn so3_values() -> Vec<[f64; 4]> {
    let id = [0.0, 0.0, 0.0, 1.0];
    let q = unit([0.3, -0.5, 0.2, 0.79]);
    let mut v = vec![
        id,
        [0.0, 0.0, 0.0, -1.0],
        [1.0, 0.0, 0.0, 0.0],
        [-1.0, 0.0, 0.0, 0.0],
        [0.0, 1.0, 0.0, 0.0],
        [0.0, -1.0, 0.0, 0.0],
        [0.0, 0.0, 1.0, 0.0],
        [0.0, 0.0, -1.0, 0.0],
        q,
        [-q[0], -q[1], -q[2], -q[3]],
        rot(&q, [1.0, 2.0, 3.0], 1e-9),
        rot(&q, [1.0, 2.0, 3.0], 1e-4),
        // dot == 0 with q: rotation by pi
        rot(&q, [0.0, 1.0, 0.0], PI),
        // around the 0.9995 LERP/SLERP switch: quaternion angle theta with cos(theta)=0.9995
        rot(&q, [1.0, 0.0, 0.0], 2.0 * (0.9995f64 + 1e-7).acos()),
        rot(&q, [1.0, 0.0, 0.0], 2.0 * (0.9995f64 - 1e-7).acos()),
        rot(&q, [-1.0, 1.0, 0.0], PI - 1e-9),
        rot(&id, [1.0, 1.0, 1.0], 2.0),
        unit([0.5, 0.5, 0.5, 0.5]),
    ];
    v.dedup();
    v
}

pub fn rv_values_full() -> Vec<f64> {
    vec![
        0.0,
        -0.0,
        1.0,
        -1.0,
        1e-300,
        -1e-300,
        1e150,
        -1e150,
        next_up(1.0),
        -next_up(1.0),
        3.5,
    ]
}
pub fn rv_values_small() -> Vec<f64> {
    vec![0.0, 1.0, -1.0, 1e-300, 1e150, -1e150, next_up(1.0)]
}

pub fn cfg_rv(dim: usize) -> SpaceCfg {
    SpaceCfg::single(KindTag::RV, Comp::RV { dim, bounds: None }, None)
}
pub fn cfg_so2() -> SpaceCfg {
    SpaceCfg::single(KindTag::SO2, Comp::SO2 { bounds: None }, None)
}
pub fn cfg_so3() -> SpaceCfg {
    SpaceCfg::single(KindTag::SO3, Comp::SO3 { bounds: None }, None)
}
pub fn cfg_se2(w: f64) -> SpaceCfg {
    SpaceCfg {
        kind: KindTag::SE2,
        comps: vec![Comp::RV { dim: 2, bounds: None }, Comp::SO2 { bounds: None }],
        weights: vec![1.0, w],
        fracs: vec![None, None],
    }
}
pub fn cfg_se3(w: f64) -> SpaceCfg {
    SpaceCfg {
        kind: KindTag::SE3,
        comps: vec![Comp::RV { dim: 3, bounds: None }, Comp::SO3 { bounds: None }],
        weights: vec![1.0, w],
        fracs: vec![None, None],
    }
}
pub fn cfg_cs(w: [f64; 3]) -> SpaceCfg {
    SpaceCfg {
        kind: KindTag::CS,
        comps: vec![
            Comp::SO2 { bounds: None },
            Comp::RV { dim: 1, bounds: None },
            Comp::SO3 { bounds: None },
        ],
        weights: w.to_vec(),
        fracs: vec![None, None, None],
    }
}

/// Lattice states per space configuration: (cfg, states).
pub fn lattices(thorough: bool) -> Vec<(SpaceCfg, Vec<Vec<f64>>)> {
    let mut out = Vec::new();
    out.push((cfg_rv(1), rv_values_full().into_iter().map(|x| vec![x]).collect()));
    let small = rv_values_small();
    let mut s2 = Vec::new();
    for a in &small {
        for b in &small {
            s2.push(vec![*a, *b]);
        }
    }
    if !thorough {
        s2 = s2.into_iter().step_by(3).collect();
    }
    out.push((cfg_rv(2), s2));
    let mut s3 = Vec::new();
    for a in &small {
        for b in &[0.0, 1e150, -1.0] {
            for c in &[1e-300, 1.0] {
                s3.push(vec![*a, *b, *c]);
            }
        }
    }
    if !thorough {
        s3 = s3.into_iter().step_by(2).collect();
    }
    out.push((cfg_rv(3), s3));
    out.push((cfg_so2(), so2_values().into_iter().map(|x| vec![x]).collect()));
    out.push((cfg_so3(), so3_values().into_iter().map(|q| q.to_vec()).collect()));
    // products for the composite kinds (sub-sampled)
    let so2 = so2_values();
    let so3 = so3_values();
    let so2_sub: Vec<f64> = so2.iter().copied().step_by(if thorough { 2 } else { 3 }).collect();
    let so3_sub: Vec<[f64; 4]> = so3.iter().copied().step_by(if thorough { 2 } else { 3 }).collect();
    for w in [1.0, 0.5, 1e3] {
        let mut st = Vec::new();
        for (i, a) in so2_sub.iter().enumerate() {
            let x = small[i % small.len()];
            let y = small[(i * 3 + 1) % small.len()];
            st.push(vec![x, y, *a]);
        }
        out.push((cfg_se2(w), st));
        let mut st = Vec::new();
        for (i, q) in so3_sub.iter().enumerate() {
            let x = small[i % small.len()];
            let mut v = vec![x, 1.0, -1.0];
            v.extend_from_slice(q);
            st.push(v);
        }
        out.push((cfg_se3(w), st));
    }
    for w in [[1.0, 1.0, 1.0], [0.0, 1e-6, 1e3], [2.0, 0.5, 0.0]] {
        let mut st = Vec::new();
        for (i, q) in so3_sub.iter().enumerate() {
            let a = so2_sub[(i * 2 + 1) % so2_sub.len()];
            let x = small[(i + 2) % small.len()];
            let mut v = vec![a, x];
            v.extend_from_slice(q);
            st.push(v);
        }
        out.push((cfg_cs(w), st));
    }
    out
}
