//! C15 / C16 / C17: search-tree invariants and per-iteration transition oracles, evaluated on
//! traces whose solve calls run exactly one iteration each (budget 1).

use super::paths::{oracle_a, oracle_b, planner_name, DecodedLog};
use super::plan::*;
use crate::exec::*;
use crate::flat::*;
use crate::runner::Ctx;

#[derive(Clone, Copy, Debug, Default)]
pub struct Which {
    pub c15: bool,
    pub c16: bool,
    pub c17: bool,
}

fn walk_to_root(t: &[NodeF], i: usize) -> Option<Vec<usize>> {
    let mut out = vec![i];
    let mut cur = i;
    while let Some(p) = t.get(cur)?.parent {
        if p >= t.len() {
            return None;
        }
        out.push(p);
        cur = p;
        if out.len() > t.len() {
            return None;
        }
    }
    Some(out)
}

/// Structural + semantic invariant of one tree (C15). `log_upto`: how much of the validity log
/// existed when the snapshot was taken.
#[allow(clippy::too_many_arguments)]
pub fn tree_invariant<K: Kind>(
    ks: &KSpace<K>,
    case: &PlanCase,
    tree: &[NodeF],
    which_tree: &str,
    root_expect: Option<&[f64]>,
    log: &DecodedLog<K>,
    log_range: (usize, usize),
    lvs: f64,
    limit: f64,
    world: &crate::world::World,
    check_edge: &dyn Fn(usize) -> bool,
    check_root: bool,
    ctx: &mut Ctx,
) {
    let pname = planner_name(case.planner);
    if tree.is_empty() {
        return;
    }
    let n = tree.len();
    for (i, nd) in tree.iter().enumerate() {
        match nd.parent {
            None => {
                if i != 0 {
                    ctx.fail(
                        format!("C15:second-root:{pname}:{which_tree}"),
                        format!("node {i} of {n} has no parent"),
                    );
                    return;
                }
            }
            Some(p) => {
                if i == 0 {
                    ctx.fail(
                        format!("C15:root-has-parent:{pname}:{which_tree}"),
                        format!("node 0 has parent {p}"),
                    );
                    return;
                }
                if p >= n {
                    ctx.fail(
                        format!("C15:parent-out-of-range:{pname}:{which_tree}"),
                        format!("node {i} has parent {p} >= {n}"),
                    );
                    return;
                }
            }
        }
    }
    for i in 0..n {
        match walk_to_root(tree, i) {
            Some(w) if *w.last().unwrap() == 0 => {}
            _ => {
                ctx.fail(
                    format!("C15:cycle:{pname}:{which_tree}"),
                    format!("walking parent links from node {i} does not reach the root within {n} steps"),
                );
                return;
            }
        }
    }
    if let Some(r) = root_expect {
        if !bits_eq(&tree[0].s, r) {
            ctx.fail(
                format!("C15:wrong-root:{pname}:{which_tree}"),
                format!("root = {:?}, expected {:?}", tree[0].s, r),
            );
        }
    }
    for (i, nd) in tree.iter().enumerate() {
        // The goal-tree root is drawn by setup(), which cannot report an error; it is validated
        // (and replaced or dropped) by the first solve call. `check_root` is false for snapshots
        // taken before any solve call has returned.
        if i == 0 && !check_root {
            continue;
        }
        // a start state the checker rejects sits in the tree as a lone root until solve reports
        // InvalidStartState; it is a defect only once the tree has been grown from it
        if i == 0 && tree.len() == 1 && root_expect.is_some() {
            continue;
        }
        if !world.valid(&case.space, &nd.s) {
            ctx.fail(
                format!("C15:invalid-node:{pname}:{which_tree}"),
                format!("node {i} = {:?} is rejected by the checker", nd.s),
            );
        }
        if !check_edge(i) {
            continue;
        }
        if let Some(p) = nd.parent {
            let (a, b) = (&tree[p].s, &nd.s);
            let (gap, d, n_on, _) = oracle_a(ks, log, log_range.0, log_range.1, a, b);
            let tol = seg_tol(&case.space, d);
            if gap > lvs + tol {
                ctx.fail(
                    format!("C15:edge-not-motion-checked:{pname}:{which_tree}"),
                    format!("edge {p}->{i} of length {d:e}: largest stretch without an accepted validity query is {gap:e} > L = {lvs:e} ({n_on} accepted on-segment queries)"),
                );
            }
            let run = oracle_b(ks, world, a, b, lvs);
            if run >= lvs + tol {
                ctx.fail(
                    format!("C15:edge-crosses-invalid-stretch:{pname}:{which_tree}"),
                    format!("edge {p}->{i} of length {d:e} crosses an invalid stretch >= {run:e} >= L = {lvs:e}"),
                );
            }
            let bound = limit * (1.0 + 1e-9) + seg_tol(&case.space, limit) + dist_tol(&case.space, a, b);
            if !(d <= bound) {
                ctx.fail(
                    format!("C15:edge-too-long:{pname}:{which_tree}"),
                    format!("edge {p}->{i} has length {d:e} > extension limit {limit:e}"),
                );
            }
            if p > i {
                ctx.label("rewired-edge(parent-index>child-index)");
            }
            if d == 0.0 {
                ctx.label("zero-length-edge");
            }
            if p + 1 != i {
                ctx.label("non-chain-edge");
            }
        }
    }
    if case.planner == PlannerTag::RRTStar {
        // C17 (d): recorded cost is an upper bound of the true branch length
        for i in 0..n {
            let w = walk_to_root(tree, i).unwrap();
            let mut len = 0.0;
            for k in 0..w.len() - 1 {
                len += ks.d(&tree[w[k]].s, &tree[w[k + 1]].s);
            }
            let tol = 1e-9 * (1.0 + len) + w.len() as f64 * seg_tol(&case.space, 0.0) * 1e-3;
            if !(tree[i].cost >= len - tol) {
                ctx.fail(
                    format!("C15:cost-below-branch-length:{pname}"),
                    format!("node {i}: recorded cost {:e} < true branch length {len:e}", tree[i].cost),
                );
            }
        }
    }
}

fn snap_trees(s: &Snap) -> Vec<&Vec<NodeF>> {
    match s {
        Snap::Tree(t) => vec![t],
        Snap::Two(a, b) => vec![a, b],
        _ => vec![],
    }
}

/// Outcome of the motion check whose queries start at `vlog[pos]`: all validity queries that
/// carry the same motion-check id (hook `note_motion_check`) belong to it, in whatever order the
/// planner visits the segment; it passed iff none of them was rejected. Returns
/// Some((passed, position after the check)) or None if no query is left.
fn next_motion_outcome(
    vlog: &[(Vec<f64>, bool)],
    ids: &[u64],
    pos: usize,
) -> Option<(bool, usize)> {
    if pos >= vlog.len() {
        return None;
    }
    let id = ids[pos];
    if id % 2 == 0 {
        // not inside a motion check (the counter is odd exactly while one runs)
        return None;
    }
    let mut p = pos;
    let mut ok = true;
    while p < vlog.len() && ids[p] == id {
        ok &= vlog[p].1;
        p += 1;
    }
    Some((ok, p))
}

/// Reference steer: the set of acceptable (parent index, new state) pairs for sample q.
fn expected_extension<K: Kind>(
    ks: &KSpace<K>,
    tree: &[NodeF],
    q: &[f64],
    step: f64,
) -> (f64, Vec<(usize, Vec<f64>)>) {
    let ds: Vec<f64> = tree.iter().map(|n| ks.d(&n.s, q)).collect();
    let nmin = ds.iter().cloned().fold(f64::INFINITY, f64::min);
    let mut out = Vec::new();
    for (i, d) in ds.iter().enumerate() {
        if *d == nmin {
            let s = if nmin > step {
                ks.interp(&tree[i].s, q, step / nmin)
            } else {
                q.to_vec()
            };
            out.push((i, s));
        }
    }
    (nmin, out)
}

/// Every state of the dense interpolation (spacing L/64) from a to b, both ends included, is
/// valid in the pure world.
fn dense_all_valid<K: Kind>(ks: &KSpace<K>, world: &crate::world::World, a: &[f64], b: &[f64], lvs: f64) -> bool {
    use oxmpl::base::space::StateSpace;
    let (sa, sb) = (K::dec(&ks.cfg, a), K::dec(&ks.cfg, b));
    let d = ks.sp.distance(&sa, &sb);
    if !(lvs > 0.0) || !d.is_finite() {
        return false;
    }
    let n = ((d / (lvs / 64.0)).ceil() as usize).clamp(1, 50_000);
    let mut out = sa.clone();
    for i in 0..=n {
        ks.sp.interpolate(&sa, &sb, i as f64 / n as f64, &mut out);
        if !world.valid(&ks.cfg, &K::enc(&out)) {
            return false;
        }
    }
    world.valid(&ks.cfg, b)
}

/// Do all validity queries of one motion check lie on the segment a-b (metric on-segment test of
/// oracle A)?
fn group_on_segment<K: Kind>(ks: &KSpace<K>, group: &[(Vec<f64>, bool)], a: &[f64], b: &[f64]) -> bool {
    let d = ks.d(a, b);
    let tol = seg_tol(&ks.cfg, d);
    group.iter().all(|(q, _)| {
        let (da, db) = (ks.d(a, q), ks.d(q, b));
        (da + db - d).abs() <= tol
    })
}

fn trees_bits_eq(a: &[NodeF], b: &[NodeF]) -> bool {
    a.len() == b.len()
        && a.iter().zip(b).all(|(x, y)| {
            bits_eq(&x.s, &y.s) && x.parent == y.parent && x.cost.to_bits() == y.cost.to_bits()
        })
}

/// C16 (+C17) transition oracle for one single-iteration solve step.
#[allow(clippy::too_many_arguments)]
pub fn transition<K: Kind>(
    ks: &KSpace<K>,
    case: &PlanCase,
    trace: &Trace,
    prob: &Problem,
    before: &Snap,
    st: &Step,
    world: &crate::world::World,
    which: Which,
    ctx: &mut Ctx,
) {
    let pname = planner_name(case.planner);
    let (p_step, p_bias, p_radius) = st.params;
    if st.cap_fired {
        // harness artefact: the query cap zeroed the budget (and the tick counter) mid-call
        ctx.label("step-skipped(query-cap-fired)");
        return;
    }
    if st.ticks != 1 {
        // the call ended before its iteration (uninitialised, invalid start/goal root, ...)
        if let (Some(a), Some(b)) = (snap_trees(before).first(), snap_trees(&st.snap).first()) {
            if which.c16 && st.ticks == 0 && !trees_bits_eq(a, b) && !matches!(case.planner, PlannerTag::RRTConnect) {
                ctx.fail(
                    format!("C16:tree-changed-without-iteration:{pname}"),
                    "a solve call that ran no iteration changed the tree",
                );
            }
        }
        return;
    }
    if let (Snap::Two(_, g0), Snap::Two(_, g1)) = (before, &st.snap) {
        let same_root = match (g0.first(), g1.first()) {
            (Some(a), Some(b)) => bits_eq(&a.s, &b.s),
            _ => false,
        };
        if !same_root {
            // the goal root was (re-)drawn inside this solve call: extra goal samples and
            // validity queries precede the iteration; not a transition this oracle models
            ctx.label("connect:goal-root-redrawn-in-solve");
            return;
        }
    }
    let vlog = &trace.rec.vlog[st.vlog.0..st.vlog.1];
    let ids = &trace.rec.vmotion[st.vlog.0..st.vlog.1];
    let usamp = &trace.rec.samples[st.samples.0..st.samples.1];
    let gsamp = &trace.rec.goal_samples[st.goal_samples.0..st.goal_samples.1];
    // the sample of this iteration
    let q: &Vec<f64> = match (usamp.len(), gsamp.len()) {
        (1, 0) => &usamp[0],
        (0, 1) => &gsamp[0],
        (0, 0) => return, // sampler failed: iteration skipped
        _ => {
            if which.c16 {
                ctx.fail(
                    format!("C16:more-than-one-sample-per-iteration:{pname}"),
                    format!("{} uniform and {} goal samples drawn in one iteration", usamp.len(), gsamp.len()),
                );
            }
            return;
        }
    };
    if which.c16 {
        if p_bias == 0.0 && !gsamp.is_empty() {
            ctx.fail(format!("C16:goal-sampled-with-bias-0:{pname}"), "sample_goal called although goal_bias = 0");
        }
        if p_bias == 1.0 && !usamp.is_empty() {
            ctx.fail(format!("C16:uniform-sampled-with-bias-1:{pname}"), "sample_uniform called although goal_bias = 1");
        }
    }
    // validity queries made before the first motion check of this call (root checks) carry an
    // even id: skip them, however many there are
    let mut pos = 0;
    while pos < vlog.len() && ids[pos] % 2 == 0 {
        pos += 1;
    }
    match (case.planner, before, &st.snap) {
        (PlannerTag::RRT, Snap::Tree(t0), Snap::Tree(t1))
        | (PlannerTag::RRTStar, Snap::Tree(t0), Snap::Tree(t1)) => {
            let (nmin, cands) = expected_extension(ks, t0, q, p_step);
            let outcome = next_motion_outcome(vlog, ids, pos);
            let passed = outcome.map(|o| o.0).unwrap_or(false);
            if let Some((_, p)) = outcome {
                // "pick a tree node nearest to the drawn sample": the motion that decides this
                // iteration runs from a nearest node to the new state
                if which.c16 && !cands.iter().any(|(pi, s)| group_on_segment(ks, &vlog[pos..p], &t0[*pi].s, s)) {
                    ctx.fail(
                        format!("C16:first-motion-check-not-from-a-nearest-node:{pname}"),
                        format!(
                            "sample {q:?}: the {} validity queries of the iteration's first motion check do not lie on the segment from a nearest node {:?} to the new state {:?}",
                            p - pos,
                            t0[cands[0].0].s,
                            cands[0].1
                        ),
                    );
                }
                pos = p;
            }
            let star = case.planner == PlannerTag::RRTStar;
            if which.c16 && outcome.is_none() && nmin > 0.0 && trees_bits_eq(t0, t1) {
                // no motion was checked at all: fine only if the extension would have been invalid
                if cands.iter().all(|(p, s)| dense_all_valid(ks, world, &t0[*p].s, s, trace.lvs)) {
                    ctx.fail(
                        format!("C16:valid-extension-not-attempted:{pname}"),
                        format!("sample {q:?}: no motion check was made and nothing was added, although the extension {:?} -> {:?} is valid at spacing L/64", t0[cands[0].0].s, cands[0].1),
                    );
                }
            }
            if !passed {
                if which.c16 && !trees_bits_eq(t0, t1) {
                    ctx.fail(
                        format!("C16:tree-changed-although-motion-invalid:{pname}"),
                        format!("sample {q:?}: the motion toward it was rejected, but the tree changed ({} -> {} nodes)", t0.len(), t1.len()),
                    );
                }
                ctx.label("transition:rejected");
                return;
            }
            if t1.len() != t0.len() + 1 {
                if which.c16 {
                    ctx.fail(
                        format!("C16:wrong-node-count:{pname}"),
                        format!("sample {q:?}: motion accepted, expected exactly one new node, tree went {} -> {}", t0.len(), t1.len()),
                    );
                }
                return;
            }
            let new = &t1[t0.len()];
            // "the sample itself / the point at exactly the maximum step": bit-equal to what the
            // reference computes, or - should a refactoring compute the same point by a slightly
            // different expression - within the metric tolerance of it
            let near_tol = seg_tol(&case.space, p_step) + dist_tol(&case.space, &new.s, &new.s);
            let matching: Vec<&(usize, Vec<f64>)> = cands
                .iter()
                .filter(|(_, s)| bits_eq(s, &new.s) || ks.d(s, &new.s) <= near_tol)
                .collect();
            if !cands.iter().any(|(_, s)| bits_eq(s, &new.s)) && !matching.is_empty() {
                ctx.label("new-state-equal-within-tolerance-only");
            }
            if which.c16 {
                if matching.is_empty() {
                    let far = nmin > p_step;
                    ctx.fail(
                        format!("C16:wrong-new-state:{pname}:{}", if far { "steered" } else { "within-step" }),
                        format!(
                            "sample {q:?} at distance {nmin:e} from the nearest node (step {:e}): new node {:?}, expected one of {:?}",
                            p_step,
                            new.s,
                            cands.iter().map(|c| &c.1).collect::<Vec<_>>()
                        ),
                    );
                } else if !star && !matching.iter().any(|(p, _)| Some(*p) == new.parent) {
                    ctx.fail(
                        format!("C16:parent-not-nearest:{pname}"),
                        format!("new node's parent is {:?}, nearest nodes are {:?}", new.parent, cands.iter().map(|c| c.0).collect::<Vec<_>>()),
                    );
                }
                if nmin > p_step {
                    // metric form of "exactly one step toward the sample"
                    let dn = ks.d(&t0[cands[0].0].s, &new.s);
                    if (dn - p_step).abs() > seg_tol(&case.space, p_step) + 1e-9 * p_step {
                        ctx.fail(
                            format!("C16:step-length:{pname}"),
                            format!("new node is {dn:e} from its nearest node, step is {:e}", p_step),
                        );
                    }
                }
                if !star {
                    // no other mutation
                    if !trees_bits_eq(t0, &t1[..t0.len()]) {
                        ctx.fail(format!("C16:old-nodes-mutated:{pname}"), "an RRT iteration changed existing nodes");
                    }
                }
                let recent = cands.iter().any(|c| c.0 + 1 == t0.len());
                if !recent && nmin > p_step {
                    ctx.nontrivial = true;
                    ctx.label("transition:nearest-is-not-latest-and-steered");
                }
            }
            if star && which.c17 {
                rrtstar_transition(ks, case, world, trace.lvs, p_radius, t0, t1, cands.iter().map(|c| c.0).collect(), vlog, pos, ctx);
            }
        }
        (PlannerTag::RRTConnect, Snap::Two(s0, g0), Snap::Two(s1, g1)) => {
            if !which.c16 {
                return;
            }
            let grow_start = s0.len() <= g0.len();
            let (a0, b0, a1, b1) = if grow_start { (s0, g0, s1, g1) } else { (g0, s0, g1, s1) };
            ctx.label(if grow_start { "connect:start-tree-grows-first" } else { "connect:goal-tree-grows-first" });
            let (_nmin, cands) = expected_extension(ks, a0, q, p_step);
            let outcome = next_motion_outcome(vlog, ids, pos);
            let passed = outcome.map(|o| o.0).unwrap_or(false);
            if let Some((_, p)) = outcome {
                pos = p;
            }
            if outcome.is_none() && _nmin > 0.0 && trees_bits_eq(a0, a1) && trees_bits_eq(b0, b1)
                && cands.iter().all(|(p, s)| dense_all_valid(ks, world, &a0[*p].s, s, trace.lvs))
            {
                ctx.fail(
                    "C16:valid-extension-not-attempted:RRTConnect",
                    format!("sample {q:?}: no motion check was made and nothing was added, although the extension {:?} -> {:?} is valid at spacing L/64", a0[cands[0].0].s, cands[0].1),
                );
            }
            if !passed {
                if !trees_bits_eq(a0, a1) || !trees_bits_eq(b0, b1) {
                    // which tree changed?
                    let wrong_tree = trees_bits_eq(a0, a1);
                    ctx.fail(
                        format!("C16:connect:{}:RRTConnect", if wrong_tree { "wrong-tree-grew-first" } else { "tree-changed-although-motion-invalid" }),
                        format!("sample {q:?}: the {} tree ({} nodes vs {}) should extend first; its motion was rejected, yet a tree changed", if grow_start { "start" } else { "goal" }, a0.len(), b0.len()),
                    );
                }
                ctx.label("transition:rejected");
                return;
            }
            if a1.len() != a0.len() + 1 || !trees_bits_eq(a0, &a1[..a0.len()]) {
                ctx.fail(
                    "C16:connect:first-tree-did-not-gain-exactly-one-node:RRTConnect",
                    format!("{} tree went {} -> {} nodes", if grow_start { "start" } else { "goal" }, a0.len(), a1.len()),
                );
                return;
            }
            let new_a = &a1[a0.len()];
            let near_tol = seg_tol(&case.space, p_step) + dist_tol(&case.space, &new_a.s, &new_a.s);
            if !cands.iter().any(|(p, s)| (bits_eq(s, &new_a.s) || ks.d(s, &new_a.s) <= near_tol) && Some(*p) == new_a.parent) {
                ctx.fail(
                    "C16:connect:wrong-extension-of-first-tree:RRTConnect",
                    format!("new node {:?} (parent {:?}), expected one of {:?}", new_a.s, new_a.parent, cands),
                );
                return;
            }
            // direct hit ends the iteration before the connect attempt
            if grow_start && ks.goal_satisfied(&prob.goal, &new_a.s) {
                if !matches!(st.res, Res::Path(_)) {
                    ctx.fail("C16:connect:direct-hit-not-reported:RRTConnect", "the start tree's new node satisfies the goal but solve did not return a path");
                }
                if !trees_bits_eq(b0, b1) {
                    ctx.fail("C16:connect:other-tree-changed-after-direct-hit:RRTConnect", "");
                }
                return;
            }
            // connect: tree_b extends toward new_a
            let (_n2, cands_b) = expected_extension(ks, b0, &new_a.s, p_step);
            let outcome_b = next_motion_outcome(vlog, ids, pos);
            let Some((passed_b, _)) = outcome_b else {
                // "... and then tries to connect the other tree to the new node": every attempt
                // asks the checker at least about the end point of the motion
                ctx.fail(
                    "C16:connect:no-connect-attempt:RRTConnect",
                    format!(
                        "the {} tree gained node {:?} (no direct hit), but no motion of the other tree toward it was checked",
                        if grow_start { "start" } else { "goal" },
                        new_a.s
                    ),
                );
                return;
            };
            if !passed_b {
                if !trees_bits_eq(b0, b1) {
                    ctx.fail("C16:connect:other-tree-changed-although-motion-invalid:RRTConnect", "");
                }
                return;
            }
            if b1.len() != b0.len() + 1 || !trees_bits_eq(b0, &b1[..b0.len()]) {
                ctx.fail(
                    "C16:connect:other-tree-did-not-gain-exactly-one-node:RRTConnect",
                    format!("other tree went {} -> {} nodes although its motion toward the new node was accepted", b0.len(), b1.len()),
                );
                return;
            }
            let new_b = &b1[b0.len()];
            if !cands_b.iter().any(|(p, s)| (bits_eq(s, &new_b.s) || ks.d(s, &new_b.s) <= near_tol) && Some(*p) == new_b.parent) {
                ctx.fail(
                    "C16:connect:wrong-extension-of-other-tree:RRTConnect",
                    format!("other tree's new node {:?} (parent {:?}) is not the steer of its nearest node toward the first tree's new node; expected one of {:?}", new_b.s, new_b.parent, cands_b),
                );
            }
            ctx.nontrivial = true;
            ctx.label("transition:connect-both-trees-grew");
        }
        _ => {}
    }
}

/// C17 (a)-(c) for one accepted RRT* iteration. `nearest`: indices of the nearest nodes.
#[allow(clippy::too_many_arguments)]
fn rrtstar_transition<K: Kind>(
    ks: &KSpace<K>,
    _case: &PlanCase,
    world: &crate::world::World,
    lvs: f64,
    radius: f64,
    t0: &[NodeF],
    t1: &[NodeF],
    nearest: Vec<usize>,
    vlog: &[(Vec<f64>, bool)],
    pos: usize,
    ctx: &mut Ctx,
) {
    let n = t0.len();
    let new = &t1[n];
    let Some(parent) = new.parent else {
        ctx.fail("C17:new-node-without-parent", "");
        return;
    };
    if parent >= n {
        ctx.fail("C17:parent-out-of-range", format!("parent {parent} of the new node {n}"));
        return;
    }
    // neighbourhood (strict <)
    let nb: Vec<usize> = (0..n).filter(|j| ks.d(&new.s, &t0[*j].s) < radius).collect();
    let rest = &vlog[pos.min(vlog.len())..];
    // rejected queries of the remainder of this iteration, decoded once
    let rejected: Vec<&Vec<f64>> = rest.iter().filter(|(_, a)| !*a).map(|(s, _)| s).collect();
    let rejected_on = |a: &[f64], b: &[f64]| -> bool {
        let d = ks.d(a, b);
        let tol = seg_tol(&ks.cfg, d);
        rejected.iter().any(|s| {
            let da = ks.d(a, s);
            da <= d + tol && (da + ks.d(s, b) - d).abs() <= tol
        })
    };
    // (a) cost bookkeeping, bit-exact
    let want = t0[parent].cost + ks.d(&new.s, &t0[parent].s);
    let want2 = t0[parent].cost + ks.d(&t0[parent].s, &new.s);
    let close = |a: f64, b: f64| a == b || (a - b).abs() <= 2.0 * f64::EPSILON * a.abs().max(b.abs());
    if !close(want, new.cost) && !close(want2, new.cost) {
        ctx.fail(
            "C17:cost-not-parent-cost-plus-edge",
            format!("new node cost {:e}, parent {parent} cost {:e} + edge {:e} = {want:e}", new.cost, t0[parent].cost, ks.d(&new.s, &t0[parent].s)),
        );
    }
    // the chosen parent must be a candidate
    let is_cand = nb.contains(&parent) || nearest.contains(&parent);
    if !is_cand {
        ctx.fail(
            "C17:parent-not-a-candidate",
            format!("parent {parent} is neither the nearest node {nearest:?} nor within the search radius {:e} (neighbours {nb:?})", radius),
        );
    }
    // (b) cheapest validly reachable candidate
    let mut cand: Vec<usize> = nb.clone();
    for i in &nearest {
        if !cand.contains(i) {
            cand.push(*i);
        }
    }
    let mut exact = true;
    // Several nodes can be equally near (duplicates of one state with different costs): the
    // planner extends from one of them, and the others count only if they are neighbours. So a
    // nearest node outside the radius is a candidate only if *every* nearest node would have
    // been cheaper than the cost recorded.
    let via_of = |j: usize| t0[j].cost + ks.d(&new.s, &t0[j].s);
    let some_nearest_not_cheaper = nearest.iter().any(|j| !(via_of(*j) < new.cost));
    for j in &cand {
        // the nearest node is always reachable (its motion was just accepted); for the others a
        // cheaper cost must be explained by a rejected motion query on j -> new
        let via = via_of(*j);
        if via < new.cost {
            if nearest.len() > 1 && nearest.contains(j) && !nb.contains(j) && some_nearest_not_cheaper {
                ctx.label("rrtstar:tie-among-nearest-nodes-outside-radius");
                continue;
            }
            let explained = !nearest.contains(j) && rejected_on(&t0[*j].s, &new.s);
            if !explained {
                ctx.fail(
                    "C17:cheaper-parent-available",
                    format!("new node linked to {parent} at cost {:e} although candidate {j} offers {via:e} and no motion query on that segment was rejected", new.cost),
                );
            } else {
                exact = false;
            }
        }
    }
    if parent != nearest[0] && !nearest.contains(&parent) {
        ctx.label("rrtstar:chose-non-nearest-parent");
        ctx.nontrivial = true;
    }
    // "reachable by a valid motion" / "cheaper through the new node by a valid motion": a link
    // made by choose-parent or by rewiring must not cross an invalid stretch of the resolution's
    // length or more (dense re-check of the pure world, as oracle B of C03)
    let through_invalid = |a: &[f64], b: &[f64]| -> Option<f64> {
        let d = ks.d(a, b);
        let run = oracle_b(ks, world, a, b, lvs);
        if lvs > 0.0 && run >= lvs + seg_tol(&ks.cfg, d) {
            Some(run)
        } else {
            None
        }
    };
    if !nearest.contains(&parent) {
        if let Some(run) = through_invalid(&t0[parent].s, &new.s) {
            ctx.fail(
                "C17:linked-through-invalid-motion",
                format!("choose-parent linked the new node to {parent} across an invalid stretch of length >= {run:e} (L = {lvs:e})"),
            );
        }
    }
    // (c) rewiring
    let mut rewired = 0;
    for j in 0..n {
        let (b, a) = (&t0[j], &t1[j]);
        if !bits_eq(&b.s, &a.s) {
            ctx.fail("C17:state-of-old-node-changed", format!("node {j}"));
            continue;
        }
        let unchanged = b.parent == a.parent && b.cost.to_bits() == a.cost.to_bits();
        if !nb.contains(&j) || j == parent {
            if !unchanged {
                ctx.fail(
                    if j == parent { "C17:own-parent-rewired".to_string() } else { "C17:node-outside-radius-touched".to_string() },
                    format!("node {j}: parent {:?} -> {:?}, cost {:e} -> {:e}", b.parent, a.parent, b.cost, a.cost),
                );
            }
            continue;
        }
        let c = new.cost + ks.d(&b.s, &new.s);
        let blocked = rejected_on(&new.s, &b.s);
        let is_rewired = a.parent == Some(n) && b.parent != Some(n);
        if is_rewired {
            rewired += 1;
            let c2 = new.cost + ks.d(&new.s, &b.s);
            if !close(a.cost, c) && !close(a.cost, c2) {
                ctx.fail("C17:rewired-cost-wrong", format!("node {j} rewired with cost {:e}, expected cost(new) + edge = {c:e}", a.cost));
            }
            if !(c < b.cost) {
                ctx.fail("C17:rewired-without-improvement", format!("node {j} rewired although {c:e} is not below its cost {:e}", b.cost));
            }
            if let Some(run) = through_invalid(&new.s, &b.s) {
                ctx.fail(
                    "C17:rewired-through-invalid-motion",
                    format!("node {j} was re-parented to the new node across an invalid stretch of length >= {run:e} (L = {lvs:e})"),
                );
            }
        } else if !unchanged {
            ctx.fail("C17:neighbour-changed-but-not-rewired-to-new", format!("node {j}: parent {:?} -> {:?}, cost {:e} -> {:e}", b.parent, a.parent, b.cost, a.cost));
        } else if c < b.cost && !blocked {
            ctx.fail(
                "C17:missed-rewire",
                format!("node {j} (cost {:e}) becomes cheaper through the new node ({c:e}) and no motion query on that segment was rejected, but it was not re-parented", b.cost),
            );
        }
        if a.cost > b.cost {
            ctx.fail("C17:recorded-cost-increased", format!("node {j}: {:e} -> {:e}", b.cost, a.cost));
        }
    }
    if rewired > 0 {
        ctx.label("rrtstar:rewired");
        ctx.nontrivial = true;
    }
    if exact {
        ctx.label("rrtstar:exact-argmin-parent");
    }
}

/// Evaluates the selected oracles over a whole single-iteration trace.
pub fn check_trace<K: Kind>(case: &PlanCase, trace: &Trace, which: Which, only_last: bool, ctx: &mut Ctx) {
    let Some(ks) = KSpace::<K>::new(&case.space) else {
        return;
    };
    let lvs = trace.lvs;
    let pname = planner_name(case.planner);
    let log: DecodedLog<K> = super::paths::decode_log::<K>(&case.space, &trace.rec.vlog);
    let mut before = Snap::None;
    let mut cur_problem: Option<usize> = None;
    let mut solved_once = false;
    let nsteps = trace.steps.len();
    let worlds = step_worlds(case, trace);
    for (i, st) in trace.steps.iter().enumerate() {
        if matches!(st.res, Res::Panic { .. }) {
            ctx.panicked = true;
            return;
        }
        if let Op::Setup(p) = st.op {
            cur_problem = Some(p % case.problems.len());
            solved_once = false;
        }
        if matches!(st.op, Op::Solve { .. } | Op::SolveTimed { .. }) {
            solved_once = true;
        }
        let last = i + 1 == nsteps;
        let do_check = !only_last || last;
        if let Some(pi) = cur_problem {
            let prob = &case.problems[pi];
            if do_check && matches!(st.op, Op::Solve { .. }) {
                if which.c16 || which.c17 {
                    transition(&ks, case, trace, prob, &before, st, case.world_by_index(worlds[i]), which, ctx);
                }
            }
            if which.c15 && do_check {
                let trees = snap_trees(&st.snap);
                for (ti, t) in trees.iter().enumerate() {
                    let (name, root): (&str, Option<&[f64]>) = if ti == 0 {
                        ("start-tree", Some(&prob.start[..]))
                    } else {
                        ("goal-tree", None)
                    };
                    // Edge oracles (costly) run on the edges created or changed by this step,
                    // against the validity queries of this step; everything else was checked when
                    // it was created. Structural invariants are checked on the whole tree.
                    let prev: Option<&Vec<NodeF>> = snap_trees(&before).get(ti).copied();
                    let changed = |i: usize| -> bool {
                        match prev.and_then(|p| p.get(i)) {
                            None => true,
                            Some(old) => old.parent != t[i].parent || !bits_eq(&old.s, &t[i].s),
                        }
                    };
                    tree_invariant(&ks, case, t, name, root, &log, (st.vlog.0, st.vlog.1), lvs, super::paths::edge_limit_upto(case, trace, i), case.world_by_index(worlds[i]), &changed, ti == 0 || solved_once, ctx);
                    if ti == 1 && !t.is_empty() {
                        // goal root: satisfies the goal and is a logged sample_goal output
                        let r = &t[0].s;
                        if !ks.goal_satisfied(&prob.goal, r) {
                            ctx.fail("C15:goal-root-not-in-goal:RRTConnect", format!("goal-tree root {r:?}"));
                        }
                        if !trace.rec.goal_samples[..st.goal_samples.1].iter().any(|g| bits_eq(g, r)) {
                            ctx.fail("C15:goal-root-not-a-goal-sample:RRTConnect", format!("goal-tree root {r:?} was never returned by sample_goal"));
                        }
                    }
                }
                // reconstruct-equivalence
                if let (Res::Path(p), Snap::Tree(t)) = (&st.res, &st.snap) {
                    if let Some(w) = walk_to_root(t, t.len() - 1) {
                        let want: Vec<&Vec<f64>> = w.iter().rev().map(|k| &t[*k].s).collect();
                        let same = want.len() == p.len() && want.iter().zip(p).all(|(a, b)| bits_eq(a, b));
                        if !same {
                            ctx.fail(
                                format!("C15:path-is-not-the-parent-walk:{pname}"),
                                format!("returned path has {} states, parent walk from the last node has {}", p.len(), want.len()),
                            );
                        }
                    }
                }
                if st.snap.size() >= 4 {
                    ctx.nontrivial = ctx.nontrivial || ctx.labels.iter().any(|l| l == "non-chain-edge");
                }
            }
        }
        before = st.snap.clone();
    }
}

pub fn check_trace_dyn(case: &PlanCase, trace: &Trace, which: Which, only_last: bool, ctx: &mut Ctx) {
    crate::with_kind!(case.space.kind, check_trace, case, trace, which, only_last, ctx)
}
