//! C01–C05: properties of returned paths.

use super::plan::*;
use crate::choice::Ch;
use crate::exec::*;
use crate::flat::*;
use crate::gen::BoundsMode;
use crate::runner::*;
use crate::world::World;

// ---------------------------------------------------------------------------------------------
// Edge oracles shared with C15 / C18
// ---------------------------------------------------------------------------------------------

pub struct DecodedLog<K: Kind> {
    pub states: Vec<K::S>,
    pub ok: Vec<bool>,
}
pub fn decode_log<K: Kind>(cfg: &SpaceCfg, vlog: &[(Vec<f64>, bool)]) -> DecodedLog<K> {
    DecodedLog {
        states: vlog.iter().map(|(v, _)| K::dec(cfg, v)).collect(),
        ok: vlog.iter().map(|(_, a)| *a).collect(),
    }
}

/// Oracle A: largest gap (in the space's metric) between accepted validity queries lying on the
/// segment a-b, with the endpoints included. Returns (max_gap, d, number of accepted on-segment
/// queries, whether some *rejected* query lies on the segment).
pub fn oracle_a<K: Kind>(
    ks: &KSpace<K>,
    log: &DecodedLog<K>,
    from: usize,
    upto: usize,
    a: &[f64],
    b: &[f64],
) -> (f64, f64, usize, bool) {
    use oxmpl::base::space::StateSpace;
    let (sa, sb) = (K::dec(&ks.cfg, a), K::dec(&ks.cfg, b));
    let d = ks.sp.distance(&sa, &sb);
    let tol = seg_tol(&ks.cfg, d);
    let mut pos: Vec<f64> = vec![0.0, d];
    let mut rejected_on = false;
    for i in from..upto.min(log.states.len()) {
        let s = &log.states[i];
        let da = ks.sp.distance(&sa, s);
        if !(da <= d + tol) {
            continue;
        }
        let db = ks.sp.distance(s, &sb);
        if (da + db - d).abs() <= tol {
            if log.ok[i] {
                pos.push(da.min(d));
            } else {
                rejected_on = true;
            }
        }
    }
    let n = pos.len() - 2;
    pos.sort_by(|x, y| x.partial_cmp(y).unwrap_or(std::cmp::Ordering::Equal));
    let mut gap = 0.0f64;
    for w in pos.windows(2) {
        gap = gap.max(w[1] - w[0]);
    }
    (gap, d, n, rejected_on)
}

/// Oracle B: longest invalid stretch on the segment a-b, by dense re-checking of the pure world
/// at spacing lvs/64 along the space's own interpolation.
pub fn oracle_b<K: Kind>(ks: &KSpace<K>, world: &World, a: &[f64], b: &[f64], lvs: f64) -> f64 {
    use oxmpl::base::space::StateSpace;
    let (sa, sb) = (K::dec(&ks.cfg, a), K::dec(&ks.cfg, b));
    let d = ks.sp.distance(&sa, &sb);
    if !(d > 0.0) || !(lvs > 0.0) {
        return 0.0;
    }
    let n = ((d / (lvs / 64.0)).ceil() as usize).clamp(1, 50_000);
    let mut out = sa.clone();
    let mut run = 0usize;
    let mut best = 0usize;
    for i in 0..=n {
        let t = i as f64 / n as f64;
        ks.sp.interpolate(&sa, &sb, t, &mut out);
        if world.valid(&ks.cfg, &K::enc(&out)) {
            run = 0;
        } else {
            run += 1;
            best = best.max(run);
        }
    }
    if best == 0 {
        0.0
    } else {
        (best - 1) as f64 * d / n as f64
    }
}

pub fn planner_name(p: PlannerTag) -> &'static str {
    match p {
        PlannerTag::RRT => "RRT",
        PlannerTag::RRTConnect => "RRTConnect",
        PlannerTag::RRTStar => "RRTStar",
        PlannerTag::PRM => "PRM",
    }
}

pub fn common_labels(case: &PlanCase, trace: &Trace, ctx: &mut Ctx) {
    ctx.label(format!("planner:{}", planner_name(case.planner)));
    ctx.label(format!("kind:{:?}", case.space.kind));
    for st in &trace.steps {
        if let Op::Solve { .. } | Op::SolveTimed { .. } = st.op {
            ctx.label(format!("solve:{}", st.res.tag()));
        }
        if let Res::Panic { msg, .. } = &st.res {
            ctx.panicked = true;
            if msg.starts_with(crate::wrap::HARNESS_ABORT) {
                ctx.discard("case aborted by the harness (validity-query hard cap)");
            }
        }
    }
    if trace.rec.cap_hit {
        ctx.label("query-cap-hit");
    }
    if case.raw_space {
        ctx.label("planned-on-the-unwrapped-space");
    }
}

fn had_rejection(trace: &Trace) -> bool {
    trace.rec.vlog.iter().any(|(_, a)| !*a)
}

// ---------------------------------------------------------------------------------------------
// C01
// ---------------------------------------------------------------------------------------------

pub fn c01_oracle(case: &PlanCase, trace: &Trace, ctx: &mut Ctx) {
    let cfg = &case.space;
    let pname = planner_name(case.planner);
    walk_model(case, trace, |_i, m, st| {
        let is_solve = matches!(st.op, Op::Solve { .. } | Op::SolveTimed { .. });
        if !is_solve {
            return;
        }
        let Some(pi) = m.problem else { return };
        if !m.checker {
            return;
        }
        let prob = &case.problems[pi];
        let world = case.world_by_index(m.world);
        let start_valid = world.valid(cfg, &prob.start);
        if !start_valid {
            ctx.label("start-invalid");
        }
        if m.world == 1 {
            ctx.label("solve-under-second-world");
        }
        match &st.res {
            Res::Path(p) => {
                for (k, s) in p.iter().enumerate() {
                    if !world.valid(cfg, s) {
                        let sig = if k == 0 && !start_valid {
                            format!("C01:invalid-start-returned-in-path:{pname}")
                        } else if k + 1 == p.len()
                            && case.planner == PlannerTag::RRTConnect
                            && matches!(&st.snap, Snap::Two(_, g) if !g.is_empty() && bits_eq(&g[0].s, s))
                        {
                            "C01:invalid-goal-root-returned-in-path:RRTConnect".to_string()
                        } else {
                            format!("C01:invalid-state-on-path:{pname}")
                        };
                        ctx.fail(sig, format!("path[{k}] of {} = {:?} is rejected by the checker", p.len(), s));
                    }
                }
                if p.len() >= 3 && had_rejection(trace) {
                    ctx.nontrivial = true;
                }
            }
            Res::Err(e) => {
                let usable = case.planner != PlannerTag::PRM || m.roadmap_len > 0;
                if !start_valid && usable {
                    ctx.nontrivial = true;
                    if e != "InvalidStartState" {
                        ctx.fail(
                            format!("C01:invalid-start-not-reported:{pname}"),
                            format!("start {:?} is rejected by the checker but solve returned Err({e})", prob.start),
                        );
                    } else {
                        ctx.label("invalid-start-reported");
                    }
                }
            }
            _ => {}
        }
    });
}

pub fn run_and<F: FnOnce(&PlanCase, &Trace, &mut Ctx)>(case: &PlanCase, ctx: &mut Ctx, f: F) {
    match run_case_dyn(case) {
        Err(e) => ctx.discard(format!("unbuildable: {e}")),
        Ok(trace) => {
            common_labels(case, &trace, ctx);
            f(case, &trace, ctx);
        }
    }
}

pub struct C01;
impl Prop for C01 {
    type Case = PlanCase;
    const ID: &'static str = "C01";
    const PART: &'static str = "random-worlds";
    const RULE: &'static str = "proptest choice sequences -> planner cases over 4 planners x 6 kinds: generated bounded spaces, 0-4 obstacles (balls, boxes, walls with doors, arcs, cones; 30% thicker than the resolution but thinner than the step), 30% starts marginally inside an obstacle (depth < 0.1 L), 30% goal regions blocked/overlapped by an obstacle, step log-uniform over [1e-3,10] x extent, goal bias {0,(0,1),1}, iteration budgets, seeds; 25% of the cases are call histories with a second problem whose setup installs a stricter checker (the base world plus one obstacle). Non-trivial = Ok(path) with >= 3 states in a run where >= 1 validity query was rejected, or an invalid-start case that reached solve.";
    fn random_cases(tier: Tier) -> usize {
        tier.pick(15_000, 150_000)
    }
    fn gen(ch: &mut Ch, _tier: Tier) -> PlanCase {
        let prof = Profile {
            p_marginal_start: 0.3,
            p_goal_blocked: 0.15,
            p_goal_overlap: 0.15,
            // a quarter of the cases are call histories (re-setup with another problem and
            // possibly a stricter checker, PRM problem replacement, repeated solve)
            histories: ch.prob(0.25),
            p_world2: 0.6,
            p_retune: 0.1,
            p_raw_space: 0.2,
            ..Default::default()
        };
        gen_plan_case(ch, &prof)
    }
    fn check(case: &PlanCase, ctx: &mut Ctx) {
        run_and(case, ctx, c01_oracle);
    }
}

// ---------------------------------------------------------------------------------------------
// C02
// ---------------------------------------------------------------------------------------------

fn walk_up(tree: &[NodeF], mut i: usize) -> Option<Vec<usize>> {
    let mut out = vec![i];
    let mut steps = 0;
    while let Some(p) = tree.get(i)?.parent {
        out.push(p);
        i = p;
        steps += 1;
        if steps > tree.len() {
            return None;
        }
    }
    Some(out)
}

/// Classifies how an RRT-Connect path is assembled from the two snapshot trees. Returns a label or
/// an error description.
pub fn connect_assembly(st: &[NodeF], gt: &[NodeF], path: &[Vec<f64>]) -> Result<&'static str, String> {
    if st.is_empty() || gt.is_empty() {
        return Err("empty tree".into());
    }
    // candidates: node e in the start tree whose root walk equals a prefix of the path
    for e in (0..st.len()).rev() {
        let Some(w) = walk_up(st, e) else {
            return Err("cycle in start tree".into());
        };
        let k = w.len();
        if k > path.len() {
            continue;
        }
        let prefix_ok = w
            .iter()
            .rev()
            .zip(path.iter())
            .all(|(ni, ps)| bits_eq(&st[*ni].s, ps));
        if !prefix_ok {
            continue;
        }
        if k == path.len() {
            return Ok("direct-hit");
        }
        // remainder must be a walk in the goal tree from a node g (state == junction) to the root,
        // with the duplicated junction dropped
        for g in (0..gt.len()).rev() {
            if !bits_eq(&gt[g].s, &st[e].s) {
                continue;
            }
            let Some(wg) = walk_up(gt, g) else {
                return Err("cycle in goal tree".into());
            };
            if wg.len() - 1 != path.len() - k {
                continue;
            }
            let ok = wg[1..]
                .iter()
                .zip(path[k..].iter())
                .all(|(ni, ps)| bits_eq(&gt[*ni].s, ps));
            if ok {
                // which tree grew first in the final iteration (sizes before it)
                return Ok(if st.len() <= gt.len() {
                    "junction-start-grew"
                } else {
                    "junction-goal-grew"
                });
            }
        }
    }
    Err("path is not (start-tree root walk) ++ (goal-tree walk to its root)".into())
}

fn c02_k<K: Kind>(case: &PlanCase, trace: &Trace, ctx: &mut Ctx) {
    let Some(ks) = KSpace::<K>::new(&case.space) else {
        return;
    };
    let pname = planner_name(case.planner);
    let mut n_solves = 0;
    let mut n_setups = 0;
    let mut replaced = false;
    walk_model(case, trace, |_i, m, st| {
        match st.op {
            Op::Setup(_) => {
                n_setups += 1;
            }
            Op::SetProblem(_) => replaced = true,
            _ => {}
        }
        if !matches!(st.op, Op::Solve { .. } | Op::SolveTimed { .. }) {
            return;
        }
        n_solves += 1;
        let Res::Path(p) = &st.res else { return };
        let Some(pi) = m.problem else {
            ctx.fail(
                format!("C02:path-without-problem:{pname}"),
                "solve returned a path although no problem was installed",
            );
            return;
        };
        let prob = &case.problems[pi];
        if p.is_empty() {
            ctx.fail(format!("C02:empty-path:{pname}"), "Ok(path) with zero states");
            return;
        }
        if !bits_eq(&p[0], &prob.start) {
            ctx.fail(
                format!("C02:wrong-first-state:{pname}"),
                format!("path[0] = {:?}, start of the current problem (#{pi}) = {:?}", p[0], prob.start),
            );
        }
        let last = p.last().unwrap();
        if !ks.goal_satisfied(&prob.goal, last) {
            ctx.fail(
                format!("C02:last-state-not-in-goal:{pname}"),
                format!("path.last() = {last:?} does not satisfy the goal of the current problem (#{pi})"),
            );
        }
        if n_solves >= 2 || n_setups >= 2 || replaced {
            ctx.nontrivial = true;
            ctx.label("ok-after-history");
        }
        if let (PlannerTag::RRTConnect, Snap::Two(s, g)) = (case.planner, &st.snap) {
            match connect_assembly(s, g, p) {
                Ok(l) => {
                    ctx.label(format!("connect:{l}"));
                    ctx.nontrivial = true;
                    // label only: is the junction state repeated on the path?
                    if p.windows(2).any(|w| bits_eq(&w[0], &w[1])) {
                        ctx.label("connect:repeated-state");
                    }
                }
                Err(e) => ctx.fail("C02:connect-assembly:RRTConnect", e),
            }
        }
    });
}
pub fn c02_oracle(case: &PlanCase, trace: &Trace, ctx: &mut Ctx) {
    crate::with_kind!(case.space.kind, c02_k, case, trace, ctx)
}

pub struct C02;
impl Prop for C02 {
    type Case = PlanCase;
    const ID: &'static str = "C02";
    const PART: &'static str = "histories";
    const RULE: &'static str = "proptest choice sequences -> planner cases with call histories of 2-9 ops over {setup(P1), setup(P2), set_problem_definition(Pi) (PRM), construct_roadmap (PRM), solve(budget)} with two problems differing in start and goal; reference model tracks the current problem. Non-trivial = an Ok(path) after >= 2 solves / >= 2 setups / a problem replacement, or any RRT-Connect path (classified direct-hit / junction-start-grew / junction-goal-grew from the tree snapshots).";
    fn random_cases(tier: Tier) -> usize {
        tier.pick(12_000, 120_000)
    }
    fn gen(ch: &mut Ch, _tier: Tier) -> PlanCase {
        let prof = Profile {
            histories: true,
            max_obst: 2,
            budget_scale: 0.6,
            p_odd_start: 0.2,
            p_retune: 0.1,
            p_raw_space: 0.2,
            ..Default::default()
        };
        let mut c = gen_plan_case(ch, &prof);
        if c.planner == PlannerTag::RRTConnect && ch.prob(0.5) {
            // plain single solve: exercises the three assembly classes with full budgets
            c.ops = vec![
                Op::Setup(0),
                Op::Solve {
                    budget: default_budget(ch, c.planner, 1.0),
                },
            ];
        }
        c
    }
    fn check(case: &PlanCase, ctx: &mut Ctx) {
        run_and(case, ctx, c02_oracle);
    }
}

// ---------------------------------------------------------------------------------------------
// C03
// ---------------------------------------------------------------------------------------------

pub fn edge_kind(case: &PlanCase, snap: &Snap, path: &[Vec<f64>], k: usize) -> &'static str {
    match (case.planner, snap) {
        (PlannerTag::PRM, _) => {
            if k == 0 {
                "prm-start-connection"
            } else {
                "prm-milestone-link"
            }
        }
        (PlannerTag::RRTStar, Snap::Tree(t)) => {
            // find child node = path[k+1] whose parent state = path[k]
            for (ci, n) in t.iter().enumerate() {
                if bits_eq(&n.s, &path[k + 1]) {
                    if let Some(p) = n.parent {
                        if bits_eq(&t[p].s, &path[k]) {
                            return if p > ci {
                                "rrtstar-rewired"
                            } else if p + 1 != ci {
                                "rrtstar-tree-edge"
                            } else {
                                "rrtstar-chain-edge"
                            };
                        }
                    }
                }
            }
            "rrtstar-unclassified"
        }
        (PlannerTag::RRTConnect, Snap::Two(s, g)) => {
            let in_s = s.iter().any(|n| bits_eq(&n.s, &path[k + 1]));
            let in_g = g.iter().any(|n| bits_eq(&n.s, &path[k]));
            if in_s && !in_g {
                "connect-start-side"
            } else if in_g && !in_s {
                "connect-goal-side"
            } else {
                "connect-junction"
            }
        }
        _ => "extension",
    }
}

fn c03_k<K: Kind>(case: &PlanCase, trace: &Trace, ctx: &mut Ctx) {
    let Some(ks) = KSpace::<K>::new(&case.space) else {
        return;
    };
    let lvs = trace.lvs;
    if !(lvs > 0.0) {
        ctx.discard("non-positive resolution");
        return;
    }
    let pname = planner_name(case.planner);
    let mut log: Option<DecodedLog<K>> = None;
    let worlds = step_worlds(case, trace);
    // validity answers are only comparable within one world: oracle A looks at the log since the
    // last setup that changed the world
    let mut log_from = 0usize;
    let mut last_world = 0usize;
    for (si, st) in trace.steps.iter().enumerate() {
        if worlds[si] != last_world {
            last_world = worlds[si];
            log_from = st.vlog.0;
        }
        let world = case.world_by_index(worlds[si]);
        let Res::Path(p) = &st.res else { continue };
        if trace.rec.vlog.len() > 60_000 {
            ctx.discard("log too large for oracle A");
            return;
        }
        let lg = log.get_or_insert_with(|| decode_log::<K>(&case.space, &trace.rec.vlog));
        let mut long_edge = false;
        for k in 0..p.len().saturating_sub(1) {
            let (a, b) = (&p[k], &p[k + 1]);
            let (gap, d, n_on, _rej) = oracle_a(&ks, lg, log_from, st.vlog.1, a, b);
            let tol = seg_tol(&case.space, d);
            let ek = edge_kind(case, &st.snap, p, k);
            ctx.label(format!("edge:{ek}"));
            if d > lvs {
                long_edge = true;
                ctx.label("edge-longer-than-L");
            }
            if gap > lvs + tol {
                ctx.fail(
                    format!("C03:unchecked-gap:{pname}:{ek}"),
                    format!(
                        "segment {k} ({ek}) of length {d:e}: largest stretch without an accepted validity query is {gap:e} > L = {lvs:e} ({n_on} accepted on-segment queries)"
                    ),
                );
            }
            let run = oracle_b(&ks, world, a, b, lvs);
            if run >= lvs + tol {
                ctx.fail(
                    format!("C03:invalid-stretch:{pname}:{ek}"),
                    format!("segment {k} ({ek}) of length {d:e} crosses an invalid stretch of length >= {run:e} >= L = {lvs:e}"),
                );
            }
        }
        if long_edge && had_rejection(trace) {
            ctx.nontrivial = true;
        }
    }
}
pub fn c03_oracle(case: &PlanCase, trace: &Trace, ctx: &mut Ctx) {
    crate::with_kind!(case.space.kind, c03_k, case, trace, ctx)
}

pub struct C03;
impl Prop for C03 {
    type Case = PlanCase;
    const ID: &'static str = "C03";
    const PART: &'static str = "path-edges";
    const RULE: &'static str = "planner cases as in C01 with valid starts, 60% walls/obstacles thicker than the resolution L but thinner than the step, RRT* radius 1-4 x step, iteration budgets <= 1000; 12% of the tree-planner cases first make two calls cut by a real 0.05-2 ms deadline and then the budgeted call on the same tree. Oracle A: on every path segment the accepted logged validity queries lying on the segment (metric on-segment test) leave no gap > L; oracle B: dense re-check (spacing L/64) of the pure world finds no invalid stretch >= L. Non-trivial = a path with an edge longer than L in a run where >= 1 validity query was rejected.";
    fn random_cases(tier: Tier) -> usize {
        tier.pick(12_000, 100_000)
    }
    fn gen(ch: &mut Ch, _tier: Tier) -> PlanCase {
        let prof = Profile {
            p_thin_walls: 0.6,
            big_radius: true,
            budget_scale: 0.7,
            p_nonconvex: 0.4,
            p_prm_requery: 0.4,
            p_retune: 0.25,
            p_raw_space: 0.3,
            ..Default::default()
        };
        let mut c = gen_plan_case(ch, &prof);
        if c.planner != PlannerTag::PRM && c.problems.len() == 1 && ch.prob(0.12) {
            // a call cut short by a real deadline (0.05-2 ms), then the budgeted call on the
            // same tree: an edge accepted because its check was interrupted stays in the tree
            let budget = c.ops.iter().find_map(|o| if let Op::Solve { budget } = o { Some(*budget) } else { None }).unwrap_or(300);
            c.ops = vec![
                Op::Setup(0),
                Op::SolveTimed { us: ch.int(50, 2000) as u64 },
                Op::SolveTimed { us: ch.int(50, 2000) as u64 },
                Op::Solve { budget },
            ];
            c.problems[0].goal.radius *= 0.3;
            c.query_cap = usize::MAX;
        }
        c
    }
    fn check(case: &PlanCase, ctx: &mut Ctx) {
        run_and(case, ctx, c03_oracle);
    }
}

/// RRT* only: long-lived trees. The planner returns at the first goal hit, so edges made by
/// rewiring reach a returned path only when the tree kept growing for a while before the hit:
/// low goal bias, larger neighbourhoods, several obstacles and repeated solve calls on one tree.
pub struct C03Star;
impl Prop for C03Star {
    type Case = PlanCase;
    const ID: &'static str = "C03";
    const PART: &'static str = "rrtstar-aged-trees";
    const RULE: &'static str = "RRT* only: radius 1.5-5 x step, goal bias <= 0.1, up to 6 obstacles, setup followed by 3-6 solve calls on the same tree (each returns at the next goal hit), budgets 100-400 iterations per call; same oracles A and B on every returned path. Non-trivial = a returned path containing an edge created by rewiring (parent newer than child) or by choose-parent.";
    fn random_cases(tier: Tier) -> usize {
        tier.pick(10_000, 80_000)
    }
    fn gen(ch: &mut Ch, _tier: Tier) -> PlanCase {
        let prof = Profile {
            planners: vec![PlannerTag::RRTStar],
            p_thin_walls: 0.4,
            max_obst: 6,
            big_radius: true,
            p_nonconvex: 0.2,
            p_raw_space: 0.3,
            ..Default::default()
        };
        let mut c = gen_plan_case(ch, &prof);
        c.radius = ch.range(1.5, 5.0) * c.step;
        c.goal_bias = ch.pick(&[0.0, 0.02, 0.05, 0.1]);
        let n = 3 + ch.below(4);
        c.ops = vec![Op::Setup(0)];
        for _ in 0..n {
            c.ops.push(Op::Solve {
                budget: ch.int(100, 400) as u64,
            });
        }
        if ch.prob(0.2) {
            insert_retune(ch, &mut c.ops, c.step, c.goal_bias, c.radius);
        }
        c
    }
    fn check(case: &PlanCase, ctx: &mut Ctx) {
        run_and(case, ctx, |case, trace, ctx| {
            c03_oracle(case, trace, ctx);
            let aged = ctx.labels.iter().any(|l| l == "edge:rrtstar-rewired" || l == "edge:rrtstar-tree-edge");
            ctx.nontrivial = aged;
        });
    }
}

// ---------------------------------------------------------------------------------------------
// C04
// ---------------------------------------------------------------------------------------------

/// Components (indices) in which the flat state is out of bounds by the reference membership.
pub fn offending_components(cfg: &SpaceCfg, s: &[f64], tol: f64) -> Vec<usize> {
    let mut out = Vec::new();
    let mut o = 0;
    for (i, c) in cfg.comps.iter().enumerate() {
        let n = c.width();
        let t = if matches!(c, Comp::SO3 { .. }) { 1e-6 } else { tol };
        if !ref_comp_in_bounds(c, &s[o..o + n], t) {
            out.push(i);
        }
        o += n;
    }
    out
}

pub fn c04_oracle(case: &PlanCase, trace: &Trace, ctx: &mut Ctx) {
    let pname = planner_name(case.planner);
    let tol = 1e-9;
    // precondition of the statement: start and every goal sample in bounds (of their own space)
    for (pi, p) in case.problems.iter().enumerate() {
        if !offending_components(case.space_for(pi), &p.start, tol).is_empty() {
            ctx.discard("start out of bounds");
            return;
        }
    }
    // the problem (hence the space) in effect at each step; a setup step already draws from the
    // problem it installs
    let mut prob_at = vec![0usize; trace.steps.len()];
    walk_model(case, trace, |i, m, st| {
        prob_at[i] = match st.op {
            Op::Setup(p) => p % case.problems.len(),
            Op::SetProblem(p) if case.planner == PlannerTag::PRM => p % case.problems.len(),
            _ => m.problem.unwrap_or(0),
        };
    });
    for (i, st) in trace.steps.iter().enumerate() {
        let cfg = case.space_for(prob_at[i]);
        for g in &trace.rec.goal_samples[st.goal_samples.0..st.goal_samples.1] {
            if !offending_components(cfg, g, tol).is_empty() {
                ctx.discard("goal sample out of bounds (precondition)");
                return;
            }
        }
    }
    for (i, st) in trace.steps.iter().enumerate() {
        let cfg = case.space_for(prob_at[i]);
        for s in &trace.rec.samples[st.samples.0..st.samples.1] {
            let off = offending_components(cfg, s, tol);
            if !off.is_empty() {
                ctx.fail(
                    "C04:uniform-sample-out-of-bounds",
                    format!("sample_uniform returned {s:?}, out of bounds in components {off:?}"),
                );
                return;
            }
        }
    }
    for (i, st) in trace.steps.iter().enumerate() {
        let cfg = case.space_for(prob_at[i]);
        let bounded_strictly = cfg.comps.iter().any(|c| match c {
            Comp::RV { bounds, .. } => bounds.is_some(),
            Comp::SO2 { bounds } => bounds
                .map(|(lo, hi)| hi - lo < 2.0 * std::f64::consts::PI - 1e-9)
                .unwrap_or(false),
            Comp::SO3 { bounds } => bounds.map(|(_, a)| a < std::f64::consts::PI).unwrap_or(false),
        });
        let Res::Path(p) = &st.res else { continue };
        if case.space2.is_some() && prob_at[i] == 1 {
            ctx.label("path-in-second-space");
        }
        for (k, s) in p.iter().enumerate() {
            let off = offending_components(cfg, s, tol);
            if off.is_empty() {
                continue;
            }
            let all_nonconvex = off.iter().all(|i| !comp_region_convex(&cfg.comps[*i]));
            let sig = if all_nonconvex {
                "C04:left-nonconvex-bounded-region".to_string()
            } else {
                format!("C04:out-of-bounds:{pname}")
            };
            ctx.fail(
                sig,
                format!("path[{k}] = {s:?} violates the bounds of components {off:?}"),
            );
        }
        if p.len() >= 3 && bounded_strictly {
            ctx.nontrivial = true;
            if !region_convex(cfg) {
                ctx.label("nonconvex-region");
            }
        }
    }
}

pub struct C04;
impl Prop for C04 {
    type Case = PlanCase;
    const ID: &'static str = "C04";
    const PART: &'static str = "bounds";
    const RULE: &'static str = "planner cases over bounded spaces of every kind: boxes, SO2 intervals of every span (incl. > pi and seam-touching), SO3 cones of radius (0.3, pi), compounds; start in bounds; goal samples checked against the precondition (case discarded otherwise); 40% of cases put start and goal on opposite ends of the SO2 interval; 30% are call histories, and in 60% of those the second problem is defined over its own space object with tighter bounds (installed by setup), every sample and path state being judged against the space of the problem in effect. Reference membership independent of satisfies_bounds, tolerance 1e-9 (SO3 1e-6). Non-trivial = path with >= 3 states in a space whose bounds are strictly smaller than the manifold.";
    fn random_cases(tier: Tier) -> usize {
        tier.pick(12_000, 120_000)
    }
    fn gen(ch: &mut Ch, _tier: Tier) -> PlanCase {
        let prof = Profile {
            bounds: BoundsMode::Bounded,
            seam_bias: 0.4,
            max_obst: 2,
            rng_goal: 0.4,
            p_so3_signflip: 0.25,
            p_retune: 0.1,
            // a third of the cases are histories; in 60% of those the second problem lives in
            // its own, tighter space
            histories: ch.prob(0.3),
            p_space2: 0.6,
            // (precondition of C04: goal samples in bounds)
            p_outside_target: 0.0,
            ..Default::default()
        };
        let mut c = gen_plan_case(ch, &prof);
        let offs = c.space.offsets();
        if c.space2.is_none() && c.problems.len() == 1 && ch.prob(0.04) {
            // an exact half turn inside a half-circle interval: both arcs are shortest, one of
            // them lies inside the interval
            for (i, comp) in c.space.comps.iter_mut().enumerate() {
                if let Comp::SO2 { bounds } = comp {
                    let h = std::f64::consts::FRAC_PI_2;
                    *bounds = Some((-h, h));
                    let (a, b) = if ch.prob(0.5) { (-h, h) } else { (h, -h) };
                    c.problems[0].start[offs[i]] = a;
                    for t in c.problems[0].goal.targets.iter_mut() {
                        t[offs[i]] = b;
                    }
                    c.goal_bias = ch.pick(&[0.3, 1.0]);
                    break;
                }
            }
        } else if c.space2.is_none() && ch.prob(0.04) {
            // a box coordinate bounded on one side only: uniform sampling reports an error there,
            // goal samples drive the tree, and whatever is sampled must respect the finite bound
            for comp in c.space.comps.iter_mut() {
                if let Comp::RV { bounds: Some(b), .. } = comp {
                    let k = ch.below(b.len());
                    b[k] = if ch.prob(0.5) { (f64::NEG_INFINITY, b[k].1) } else { (b[k].0, f64::INFINITY) };
                    c.goal_bias = ch.pick(&[0.3, 0.6, 1.0]);
                    break;
                }
            }
        }
        c
    }
    fn check(case: &PlanCase, ctx: &mut Ctx) {
        run_and(case, ctx, c04_oracle);
    }
}

// ---------------------------------------------------------------------------------------------
// C05
// ---------------------------------------------------------------------------------------------

pub fn limit_of(planner: PlannerTag, p: (f64, f64, f64)) -> f64 {
    match planner {
        PlannerTag::RRT | PlannerTag::RRTConnect => p.0,
        PlannerTag::RRTStar => p.0.max(p.2),
        PlannerTag::PRM => p.2,
    }
}
pub fn edge_limit(case: &PlanCase) -> f64 {
    limit_of(case.planner, (case.step, case.goal_bias, case.radius))
}
/// The extension limit that applies to the edges a planner may hold at step `si`: the largest
/// value its parameters had since the last `setup` (which clears trees and roadmap).
pub fn edge_limit_upto(case: &PlanCase, trace: &Trace, si: usize) -> f64 {
    let mut lim = f64::NEG_INFINITY;
    for st in trace.steps[..=si.min(trace.steps.len().saturating_sub(1))].iter() {
        if matches!(st.op, Op::Setup(_)) {
            lim = f64::NEG_INFINITY;
        }
        let l = limit_of(case.planner, st.params);
        if l.is_nan() {
            return f64::NAN;
        }
        lim = lim.max(l);
    }
    lim
}

fn c05_k<K: Kind>(case: &PlanCase, trace: &Trace, ctx: &mut Ctx) {
    let Some(ks) = KSpace::<K>::new(&case.space) else {
        return;
    };
    let pname = planner_name(case.planner);
    for (si, st) in trace.steps.iter().enumerate() {
        let Res::Path(p) = &st.res else { continue };
        let limit = edge_limit_upto(case, trace, si);
        for k in 0..p.len().saturating_sub(1) {
            let d = ks.d(&p[k], &p[k + 1]);
            let r = ref_distance(&case.space, &p[k], &p[k + 1]);
            let tol = seg_tol(&case.space, limit) + dist_tol(&case.space, &p[k], &p[k + 1]);
            let bound = limit * (1.0 + 1e-9) + tol;
            if !(d <= bound) || !(r <= bound) {
                ctx.fail(
                    format!("C05:edge-too-long:{pname}"),
                    format!("segment {k}: distance {d:e} (reference {r:e}) exceeds the extension limit {limit:e} (+tol {tol:e})"),
                );
            }
            if d >= 0.99 * st.params.0 && d <= st.params.0 * 1.01 {
                ctx.label("steered-edge");
                ctx.nontrivial = true;
            }
        }
    }
}
pub fn c05_oracle(case: &PlanCase, trace: &Trace, ctx: &mut Ctx) {
    crate::with_kind!(case.space.kind, c05_k, case, trace, ctx)
}

pub struct C05;
impl Prop for C05 {
    type Case = PlanCase;
    const ID: &'static str = "C05";
    const PART: &'static str = "spacing";
    const RULE: &'static str = "planner cases over all kinds with step / radius log-uniform over [1e-3,10] x extent, compound weights 1e-3..1e3, SO2 start/goal across the interval ends, SO3 on both interpolation branches. Every consecutive pair of path states must be within the planner's extension limit by the space's own metric and by the reference metric. Non-trivial = path containing a steered edge (length within 1% of the step).";
    fn random_cases(tier: Tier) -> usize {
        tier.pick(12_000, 120_000)
    }
    fn gen(ch: &mut Ch, _tier: Tier) -> PlanCase {
        let prof = Profile {
            seam_bias: 0.3,
            max_obst: 2,
            p_nonconvex: 0.25,
            p_prm_requery: 0.4,
            p_so3_signflip: 0.15,
            big_radius: ch.prob(0.5),
            p_retune: 0.2,
            p_raw_space: 0.3,
            ..Default::default()
        };
        gen_plan_case(ch, &prof)
    }
    fn check(case: &PlanCase, ctx: &mut Ctx) {
        run_and(case, ctx, c05_oracle);
    }
}
