pub mod choice;
pub mod exec;
pub mod flat;
pub mod gen;
pub mod props;
pub mod runner;
pub mod world;
pub mod wrap;
