//! f64 that survives JSON even when it is NaN or infinite.

use serde::{Deserialize, Deserializer, Serialize, Serializer};

#[derive(Clone, Copy, Debug, PartialEq)]
pub struct XF(pub f64);

impl Serialize for XF {
    fn serialize<S: Serializer>(&self, s: S) -> Result<S::Ok, S::Error> {
        if self.0.is_finite() {
            s.serialize_f64(self.0)
        } else if self.0.is_nan() {
            s.serialize_str("NaN")
        } else if self.0 > 0.0 {
            s.serialize_str("inf")
        } else {
            s.serialize_str("-inf")
        }
    }
}
impl<'de> Deserialize<'de> for XF {
    fn deserialize<D: Deserializer<'de>>(d: D) -> Result<Self, D::Error> {
        #[derive(Deserialize)]
        #[serde(untagged)]
        enum E {
            N(f64),
            S(String),
        }
        Ok(XF(match E::deserialize(d)? {
            E::N(x) => x,
            E::S(s) => match s.as_str() {
                "inf" => f64::INFINITY,
                "-inf" => f64::NEG_INFINITY,
                _ => f64::NAN,
            },
        }))
    }
}

/// `#[serde(with = "crate::xf::as_xf")]` for plain f64 fields that may be NaN / infinite.
pub mod as_xf {
    use super::XF;
    use serde::{Deserialize, Deserializer, Serialize, Serializer};
    pub fn serialize<S: Serializer>(v: &f64, s: S) -> Result<S::Ok, S::Error> {
        XF(*v).serialize(s)
    }
    pub fn deserialize<'de, D: Deserializer<'de>>(d: D) -> Result<f64, D::Error> {
        Ok(XF::deserialize(d)?.0)
    }
}

pub mod as_opt_xf {
    use super::XF;
    use serde::{Deserialize, Deserializer, Serialize, Serializer};
    pub fn serialize<S: Serializer>(v: &Option<f64>, s: S) -> Result<S::Ok, S::Error> {
        v.map(XF).serialize(s)
    }
    pub fn deserialize<'de, D: Deserializer<'de>>(d: D) -> Result<Option<f64>, D::Error> {
        Ok(Option::<XF>::deserialize(d)?.map(|x| x.0))
    }
}
