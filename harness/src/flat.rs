//! Space configurations, the six space kinds behind one trait, flat (Vec<f64>) state encoding and
//! the *independent reference formulas* (distance, membership, interpolation) used by the oracles.

use oxmpl::base::{
    space::{
        AnyStateSpace, CompoundStateSpace, RealVectorStateSpace, SE2StateSpace, SE3StateSpace,
        SO2StateSpace, SO3StateSpace, StateSpace,
    },
    state::{CompoundState, RealVectorState, SE2State, SE3State, SO2State, SO3State, State},
};
use serde::{Deserialize, Serialize};
use std::any::Any;
use std::f64::consts::PI;

#[derive(Clone, Copy, Debug, PartialEq, Eq, Hash, Serialize, Deserialize)]
pub enum KindTag {
    RV,
    SO2,
    SO3,
    CS,
    SE2,
    SE3,
}
pub const ALL_KINDS: [KindTag; 6] = [
    KindTag::RV,
    KindTag::SO2,
    KindTag::SO3,
    KindTag::CS,
    KindTag::SE2,
    KindTag::SE3,
];

/// One component of a (possibly compound) space.
#[derive(Clone, Debug, PartialEq, Serialize, Deserialize)]
pub enum Comp {
    /// R^n; `bounds == None` means the constructor is called with `None` (unbounded).
    RV {
        dim: usize,
        bounds: Option<Vec<(f64, f64)>>,
    },
    SO2 {
        bounds: Option<(f64, f64)>,
    },
    /// `bounds`: (centre quaternion x,y,z,w; max angle)
    SO3 {
        bounds: Option<([f64; 4], f64)>,
    },
}

impl Comp {
    pub fn width(&self) -> usize {
        match self {
            Comp::RV { dim, .. } => *dim,
            Comp::SO2 { .. } => 1,
            Comp::SO3 { .. } => 4,
        }
    }
}

#[derive(Clone, Debug, PartialEq, Serialize, Deserialize)]
pub struct SpaceCfg {
    pub kind: KindTag,
    pub comps: Vec<Comp>,
    pub weights: Vec<f64>,
    /// longest-valid-segment fraction per component; `None` = leave the default (0.05).
    pub fracs: Vec<Option<f64>>,
}

impl SpaceCfg {
    pub fn width(&self) -> usize {
        self.comps.iter().map(|c| c.width()).sum()
    }
    pub fn offsets(&self) -> Vec<usize> {
        let mut o = Vec::new();
        let mut acc = 0;
        for c in &self.comps {
            o.push(acc);
            acc += c.width();
        }
        o
    }
    pub fn single(kind: KindTag, comp: Comp, frac: Option<f64>) -> Self {
        SpaceCfg {
            kind,
            comps: vec![comp],
            weights: vec![1.0],
            fracs: vec![frac],
        }
    }
}

// ---------------------------------------------------------------------------------------------
// Building real spaces
// ---------------------------------------------------------------------------------------------

pub fn build_rv(c: &Comp, frac: Option<f64>) -> Result<RealVectorStateSpace, String> {
    if let Comp::RV { dim, bounds } = c {
        let mut sp =
            RealVectorStateSpace::new(*dim, bounds.clone()).map_err(|e| format!("{e:?}"))?;
        if let Some(f) = frac {
            sp.set_longest_valid_segment_fraction(f);
        }
        Ok(sp)
    } else {
        Err("not RV".into())
    }
}
pub fn build_so2(c: &Comp, frac: Option<f64>) -> Result<SO2StateSpace, String> {
    if let Comp::SO2 { bounds } = c {
        let mut sp = SO2StateSpace::new(*bounds).map_err(|e| format!("{e:?}"))?;
        if let Some(f) = frac {
            sp.set_longest_valid_segment_fraction(f);
        }
        Ok(sp)
    } else {
        Err("not SO2".into())
    }
}
pub fn build_so3(c: &Comp, frac: Option<f64>) -> Result<SO3StateSpace, String> {
    if let Comp::SO3 { bounds } = c {
        let b = bounds.map(|(q, a)| (SO3State::new(q[0], q[1], q[2], q[3]), a));
        let mut sp = SO3StateSpace::new(b).map_err(|e| format!("{e:?}"))?;
        if let Some(f) = frac {
            sp.set_longest_valid_segment_fraction(f);
        }
        Ok(sp)
    } else {
        Err("not SO3".into())
    }
}
pub fn build_comp_box(c: &Comp, frac: Option<f64>) -> Result<Box<dyn AnyStateSpace>, String> {
    Ok(match c {
        Comp::RV { .. } => Box::new(build_rv(c, frac)?),
        Comp::SO2 { .. } => Box::new(build_so2(c, frac)?),
        Comp::SO3 { .. } => Box::new(build_so3(c, frac)?),
    })
}
pub fn build_compound(cfg: &SpaceCfg) -> Result<CompoundStateSpace, String> {
    let mut subs = Vec::new();
    for (c, f) in cfg.comps.iter().zip(cfg.fracs.iter()) {
        subs.push(build_comp_box(c, *f)?);
    }
    if subs.len() != cfg.weights.len() {
        return Err("weights/components mismatch".into());
    }
    Ok(CompoundStateSpace::new(subs, cfg.weights.clone()))
}

/// The six space kinds behind one trait.
pub trait Kind: 'static + Sized {
    type S: State + Clone;
    type SP: StateSpace<StateType = Self::S> + Clone + 'static;
    const TAG: KindTag;
    fn build(cfg: &SpaceCfg) -> Result<Self::SP, String>;
    fn enc(s: &Self::S) -> Vec<f64>;
    /// Raw decoding: no normalisation of any kind (public fields are written directly).
    fn dec(cfg: &SpaceCfg, v: &[f64]) -> Self::S;
}

pub struct KRV;
pub struct KSO2;
pub struct KSO3;
pub struct KCS;
pub struct KSE2;
pub struct KSE3;

impl Kind for KRV {
    type S = RealVectorState;
    type SP = RealVectorStateSpace;
    const TAG: KindTag = KindTag::RV;
    fn build(cfg: &SpaceCfg) -> Result<Self::SP, String> {
        build_rv(&cfg.comps[0], cfg.fracs[0])
    }
    fn enc(s: &Self::S) -> Vec<f64> {
        s.values.clone()
    }
    fn dec(_cfg: &SpaceCfg, v: &[f64]) -> Self::S {
        RealVectorState { values: v.to_vec() }
    }
}
impl Kind for KSO2 {
    type S = SO2State;
    type SP = SO2StateSpace;
    const TAG: KindTag = KindTag::SO2;
    fn build(cfg: &SpaceCfg) -> Result<Self::SP, String> {
        build_so2(&cfg.comps[0], cfg.fracs[0])
    }
    fn enc(s: &Self::S) -> Vec<f64> {
        vec![s.value]
    }
    fn dec(_cfg: &SpaceCfg, v: &[f64]) -> Self::S {
        SO2State { value: v[0] }
    }
}
impl Kind for KSO3 {
    type S = SO3State;
    type SP = SO3StateSpace;
    const TAG: KindTag = KindTag::SO3;
    fn build(cfg: &SpaceCfg) -> Result<Self::SP, String> {
        build_so3(&cfg.comps[0], cfg.fracs[0])
    }
    fn enc(s: &Self::S) -> Vec<f64> {
        vec![s.x, s.y, s.z, s.w]
    }
    fn dec(_cfg: &SpaceCfg, v: &[f64]) -> Self::S {
        SO3State {
            x: v[0],
            y: v[1],
            z: v[2],
            w: v[3],
        }
    }
}

pub fn enc_dyn(c: &dyn State, out: &mut Vec<f64>) {
    let a = c as &dyn Any;
    if let Some(s) = a.downcast_ref::<RealVectorState>() {
        out.extend_from_slice(&s.values);
    } else if let Some(s) = a.downcast_ref::<SO2State>() {
        out.push(s.value);
    } else if let Some(s) = a.downcast_ref::<SO3State>() {
        out.extend_from_slice(&[s.x, s.y, s.z, s.w]);
    } else if let Some(s) = a.downcast_ref::<CompoundState>() {
        for c in &s.components {
            enc_dyn(&**c, out);
        }
    } else {
        panic!("oxv: unknown component state type");
    }
}
pub fn enc_compound(s: &CompoundState) -> Vec<f64> {
    let mut out = Vec::new();
    for c in &s.components {
        enc_dyn(&**c, &mut out);
    }
    out
}
pub fn dec_compound(cfg: &SpaceCfg, v: &[f64]) -> CompoundState {
    let mut comps: Vec<Box<dyn State>> = Vec::new();
    let mut o = 0;
    for c in &cfg.comps {
        match c {
            Comp::RV { dim, .. } => {
                comps.push(Box::new(RealVectorState {
                    values: v[o..o + dim].to_vec(),
                }));
                o += dim;
            }
            Comp::SO2 { .. } => {
                comps.push(Box::new(SO2State { value: v[o] }));
                o += 1;
            }
            Comp::SO3 { .. } => {
                comps.push(Box::new(SO3State {
                    x: v[o],
                    y: v[o + 1],
                    z: v[o + 2],
                    w: v[o + 3],
                }));
                o += 4;
            }
        }
    }
    CompoundState { components: comps }
}

impl Kind for KCS {
    type S = CompoundState;
    type SP = CompoundStateSpace;
    const TAG: KindTag = KindTag::CS;
    fn build(cfg: &SpaceCfg) -> Result<Self::SP, String> {
        build_compound(cfg)
    }
    fn enc(s: &Self::S) -> Vec<f64> {
        enc_compound(s)
    }
    fn dec(cfg: &SpaceCfg, v: &[f64]) -> Self::S {
        dec_compound(cfg, v)
    }
}

/// SE2 bounds in constructor form: Some([x, y, yaw]) iff the RV part is bounded.
pub fn se2_ctor_bounds(cfg: &SpaceCfg) -> Option<Vec<(f64, f64)>> {
    match (&cfg.comps[0], &cfg.comps[1]) {
        (Comp::RV { bounds: Some(b), .. }, Comp::SO2 { bounds }) => {
            let mut v = b.clone();
            v.push(bounds.unwrap_or((-PI, PI)));
            Some(v)
        }
        _ => None,
    }
}
impl Kind for KSE2 {
    type S = SE2State;
    type SP = SE2StateSpace;
    const TAG: KindTag = KindTag::SE2;
    fn build(cfg: &SpaceCfg) -> Result<Self::SP, String> {
        // Use the public constructor whenever it can express the configuration; otherwise
        // (custom resolution fractions, or SO2 bounds without RV bounds) assemble the newtype
        // from its public field.
        let default_fracs = cfg.fracs.iter().all(|f| f.is_none());
        let rv_bounded = matches!(&cfg.comps[0], Comp::RV { bounds: Some(_), .. });
        let so2_bounded = matches!(&cfg.comps[1], Comp::SO2 { bounds: Some(_) });
        if default_fracs && (rv_bounded || !so2_bounded) {
            SE2StateSpace::new(cfg.weights[1], se2_ctor_bounds(cfg)).map_err(|e| format!("{e:?}"))
        } else {
            Ok(SE2StateSpace(build_compound(cfg)?))
        }
    }
    fn enc(s: &Self::S) -> Vec<f64> {
        enc_compound(&s.0)
    }
    fn dec(cfg: &SpaceCfg, v: &[f64]) -> Self::S {
        SE2State(dec_compound(cfg, v))
    }
}
impl Kind for KSE3 {
    type S = SE3State;
    type SP = SE3StateSpace;
    const TAG: KindTag = KindTag::SE3;
    fn build(cfg: &SpaceCfg) -> Result<Self::SP, String> {
        let default_fracs = cfg.fracs.iter().all(|f| f.is_none());
        let so3_bounded = matches!(&cfg.comps[1], Comp::SO3 { bounds: Some(_) });
        if default_fracs && !so3_bounded {
            let b = match &cfg.comps[0] {
                Comp::RV { bounds, .. } => bounds.clone(),
                _ => None,
            };
            SE3StateSpace::new(cfg.weights[1], b).map_err(|e| format!("{e:?}"))
        } else {
            Ok(SE3StateSpace(build_compound(cfg)?))
        }
    }
    fn enc(s: &Self::S) -> Vec<f64> {
        enc_compound(&s.0)
    }
    fn dec(cfg: &SpaceCfg, v: &[f64]) -> Self::S {
        SE3State(dec_compound(cfg, v))
    }
}

/// Dispatch a generic function over the kind tag.
#[macro_export]
macro_rules! with_kind {
    ($tag:expr, $f:ident, $($arg:expr),*) => {
        match $tag {
            $crate::flat::KindTag::RV => $f::<$crate::flat::KRV>($($arg),*),
            $crate::flat::KindTag::SO2 => $f::<$crate::flat::KSO2>($($arg),*),
            $crate::flat::KindTag::SO3 => $f::<$crate::flat::KSO3>($($arg),*),
            $crate::flat::KindTag::CS => $f::<$crate::flat::KCS>($($arg),*),
            $crate::flat::KindTag::SE2 => $f::<$crate::flat::KSE2>($($arg),*),
            $crate::flat::KindTag::SE3 => $f::<$crate::flat::KSE3>($($arg),*),
        }
    };
}

// ---------------------------------------------------------------------------------------------
// Independent reference formulas on flat vectors
// ---------------------------------------------------------------------------------------------

/// Scaled two-pass Euclidean norm of a difference (no overflow for |v| <= 1e300).
pub fn ref_rv_distance(a: &[f64], b: &[f64]) -> f64 {
    let mut m = 0.0f64;
    for (x, y) in a.iter().zip(b) {
        m = m.max((x - y).abs());
    }
    if m == 0.0 || !m.is_finite() {
        return m;
    }
    let mut s = 0.0;
    for (x, y) in a.iter().zip(b) {
        let d = (x - y) / m;
        s += d * d;
    }
    m * s.sqrt()
}
/// Shortest arc between two angles via atan2(sin, cos) of the difference; exact reduction of
/// large arguments is delegated to libm's sin/cos.
pub fn ref_so2_distance(a: f64, b: f64) -> f64 {
    let d = a - b;
    d.sin().atan2(d.cos()).abs()
}
pub fn wrap_pi(a: f64) -> f64 {
    a.sin().atan2(a.cos())
}
/// Rotation angle 4*atan2(|q1 - s q2|, |q1 + s q2|), s = sign(q1.q2): accurate for all angles
/// (no acos near 1).
pub fn ref_so3_distance(a: &[f64], b: &[f64]) -> f64 {
    let dot: f64 = (0..4).map(|i| a[i] * b[i]).sum();
    let s = if dot < 0.0 { -1.0 } else { 1.0 };
    let mut n_minus = 0.0;
    let mut n_plus = 0.0;
    for i in 0..4 {
        n_minus += (a[i] - s * b[i]).powi(2);
        n_plus += (a[i] + s * b[i]).powi(2);
    }
    4.0 * n_minus.sqrt().atan2(n_plus.sqrt())
}
pub fn ref_comp_distance(c: &Comp, a: &[f64], b: &[f64]) -> f64 {
    match c {
        Comp::RV { .. } => ref_rv_distance(a, b),
        Comp::SO2 { .. } => ref_so2_distance(a[0], b[0]),
        Comp::SO3 { .. } => ref_so3_distance(a, b),
    }
}
pub fn ref_distance(cfg: &SpaceCfg, a: &[f64], b: &[f64]) -> f64 {
    if cfg.comps.len() == 1 && !matches!(cfg.kind, KindTag::CS) {
        return ref_comp_distance(&cfg.comps[0], a, b);
    }
    let mut o = 0;
    let mut parts = Vec::new();
    for (c, w) in cfg.comps.iter().zip(&cfg.weights) {
        let n = c.width();
        parts.push(ref_comp_distance(c, &a[o..o + n], &b[o..o + n]) * w);
        o += n;
    }
    let m = parts.iter().fold(0.0f64, |m, x| m.max(x.abs()));
    if m == 0.0 || !m.is_finite() {
        return m;
    }
    m * parts.iter().map(|p| (p / m) * (p / m)).sum::<f64>().sqrt()
}

/// Stored bounds as the constructors document them (SO2: clamped into [-pi, pi]; SO3: angle
/// clamped to pi).
pub fn ref_comp_in_bounds(c: &Comp, v: &[f64], tol: f64) -> bool {
    match c {
        Comp::RV { bounds, .. } => match bounds {
            None => v.iter().all(|x| !x.is_nan()),
            Some(b) => v
                .iter()
                .zip(b)
                .all(|(x, (lo, hi))| *x >= lo - tol && *x <= hi + tol),
        },
        Comp::SO2 { bounds } => {
            let (lo, hi) = bounds.unwrap_or((-PI, PI));
            let (lo, hi) = (lo.max(-PI), hi.min(PI));
            if !v[0].is_finite() {
                return false;
            }
            let a = wrap_pi(v[0]);
            // membership of the configuration: a or its 2pi-equivalents at the seam
            (a >= lo - tol && a <= hi + tol)
                || (a + 2.0 * PI >= lo - tol && a + 2.0 * PI <= hi + tol)
                || (a - 2.0 * PI >= lo - tol && a - 2.0 * PI <= hi + tol)
        }
        Comp::SO3 { bounds } => match bounds {
            None => v.iter().all(|x| x.is_finite()),
            Some((q, ang)) => {
                let ang = ang.min(PI);
                ref_so3_distance(q, v) <= ang + tol
            }
        },
    }
}
pub fn ref_in_bounds(cfg: &SpaceCfg, v: &[f64], tol: f64) -> bool {
    let mut o = 0;
    for c in &cfg.comps {
        let n = c.width();
        if !ref_comp_in_bounds(c, &v[o..o + n], tol) {
            return false;
        }
        o += n;
    }
    true
}

/// Is the bounded region of this component geodesically convex (so that interpolation between two
/// in-bounds states stays in bounds)? RV boxes: yes. SO2: iff span <= pi or the full circle.
/// SO3: iff cone radius <= pi/2 or the whole group.
pub fn comp_region_convex(c: &Comp) -> bool {
    match c {
        Comp::RV { .. } => true,
        Comp::SO2 { bounds } => match bounds {
            None => true,
            Some((lo, hi)) => {
                let (lo, hi) = (lo.max(-PI), hi.min(PI));
                (hi - lo) <= PI || (lo <= -PI && hi >= PI)
            }
        },
        Comp::SO3 { bounds } => match bounds {
            None => true,
            Some((_, a)) => *a <= PI / 2.0 || *a >= PI,
        },
    }
}
pub fn region_convex(cfg: &SpaceCfg) -> bool {
    cfg.comps.iter().all(comp_region_convex)
}

pub fn bits_eq(a: &[f64], b: &[f64]) -> bool {
    a.len() == b.len() && a.iter().zip(b).all(|(x, y)| x.to_bits() == y.to_bits())
}

pub fn quat_norm(q: &[f64]) -> f64 {
    let m = q.iter().fold(0.0f64, |m, x| m.max(x.abs()));
    if m == 0.0 || !m.is_finite() {
        return m;
    }
    m * q.iter().map(|x| (x / m) * (x / m)).sum::<f64>().sqrt()
}

/// Tolerance (absolute) for comparing a space's distance against the reference, per component.
pub fn comp_dist_tol(c: &Comp, a: &[f64], b: &[f64]) -> f64 {
    match c {
        Comp::RV { dim, .. } => {
            let d = ref_rv_distance(a, b);
            let n = (*dim as f64).max(1.0);
            8.0 * f64::EPSILON * n * d + f64::MIN_POSITIVE
        }
        Comp::SO2 { .. } => 1e-12 + 8.0 * f64::EPSILON * (a[0].abs() + b[0].abs()),
        Comp::SO3 { .. } => 3e-7,
    }
}
pub fn dist_tol(cfg: &SpaceCfg, a: &[f64], b: &[f64]) -> f64 {
    let mut o = 0;
    let mut t = 0.0;
    for (c, w) in cfg.comps.iter().zip(&cfg.weights) {
        let n = c.width();
        t += comp_dist_tol(c, &a[o..o + n], &b[o..o + n]) * w.abs().max(1e-300);
        o += n;
    }
    // small relative slack for the final sqrt-of-squares recombination
    t + 1e-14 * ref_distance(cfg, a, b)
}

/// Reference value of the motion-checking resolution L ("longest valid segment length") as the
/// library documents it: fraction x maximum extent per component (fraction 0.05 unless set; a
/// fraction above 1 counts as 1, a non-positive one is ignored; extent = the box diagonal for a
/// fully bounded R^n and 1 otherwise, pi for SO(2), pi/2 for SO(3)), combined for composite
/// spaces as sqrt(sum (w_i L_i)^2).
pub fn ref_lvs(cfg: &SpaceCfg) -> f64 {
    let mut tot = 0.0;
    let mut single = 0.0;
    for (i, c) in cfg.comps.iter().enumerate() {
        let f = match cfg.fracs.get(i).copied().flatten() {
            Some(f) if f > 0.0 && f <= 1.0 => f,
            Some(f) if f <= 0.0 => 0.05,
            Some(_) => 1.0,
            None => 0.05,
        };
        let e = match c {
            Comp::RV { bounds: Some(b), .. } if b.iter().all(|(lo, hi)| lo.is_finite() && hi.is_finite()) => {
                b.iter().map(|(lo, hi)| (hi - lo).powi(2)).sum::<f64>().sqrt()
            }
            Comp::RV { .. } => 1.0,
            Comp::SO2 { .. } => std::f64::consts::PI,
            Comp::SO3 { .. } => 0.5 * std::f64::consts::PI,
        };
        single = f * e;
        let w = cfg.weights.get(i).copied().unwrap_or(1.0);
        tot += (single * w).powi(2);
    }
    match cfg.kind {
        KindTag::RV | KindTag::SO2 | KindTag::SO3 => single,
        _ => tot.sqrt(),
    }
}
