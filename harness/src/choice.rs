//! Choice sequences: every generated case is a deterministic function of a `Vec<u64>` drawn by
//! proptest (Engine A) or decoded from fuzzer bytes (Engine B). All maps are monotone in the raw
//! value so that proptest's shrinking of the integers toward 0 shrinks the case toward the
//! "simplest" alternative (first list element, lower end of a range, `false`).

pub struct Ch<'a> {
    data: &'a [u64],
    pos: usize,
}

impl<'a> Ch<'a> {
    pub fn new(data: &'a [u64]) -> Self {
        Ch { data, pos: 0 }
    }
    pub fn used(&self) -> usize {
        self.pos
    }
    pub fn raw(&mut self) -> u64 {
        let v = self.data.get(self.pos).copied().unwrap_or(0);
        self.pos += 1;
        v
    }
    /// uniform in 0..n (n >= 1), monotone in the raw value
    pub fn below(&mut self, n: usize) -> usize {
        let r = self.raw();
        if n <= 1 {
            return 0;
        }
        ((r as u128 * n as u128) >> 64) as usize
    }
    /// uniform in [0, 1)
    pub fn unit(&mut self) -> f64 {
        (self.raw() >> 11) as f64 / (1u64 << 53) as f64
    }
    pub fn range(&mut self, lo: f64, hi: f64) -> f64 {
        lo + (hi - lo) * self.unit()
    }
    pub fn log_range(&mut self, lo: f64, hi: f64) -> f64 {
        (lo.ln() + (hi.ln() - lo.ln()) * self.unit()).exp()
    }
    /// true with probability p; raw 0 gives false
    pub fn prob(&mut self, p: f64) -> bool {
        self.unit() >= 1.0 - p
    }
    pub fn pick<T: Clone>(&mut self, xs: &[T]) -> T {
        xs[self.below(xs.len())].clone()
    }
    /// weighted pick; weights need not be normalised
    pub fn weighted(&mut self, ws: &[f64]) -> usize {
        let tot: f64 = ws.iter().sum();
        let mut u = self.unit() * tot;
        for (i, w) in ws.iter().enumerate() {
            if u < *w {
                return i;
            }
            u -= w;
        }
        ws.len() - 1
    }
    pub fn int(&mut self, lo: i64, hi: i64) -> i64 {
        lo + self.below((hi - lo + 1) as usize) as i64
    }
    pub fn seed(&mut self) -> u64 {
        self.raw()
    }
}
