//! `oxv refserver`: JSON-lines reference server for the Python engine (C19/C20).
//!
//! Request kinds (one JSON object per line on stdin, one reply per line on the saved stdout):
//!  {"op":"plan","case":<PlanCase>}         -> {"steps":[{"tag":..,"path":[[hexbits..]..]|null}..]}
//!  {"op":"ctor", ...}                      -> constructor outcome + probes (see handle_ctor)
//!  {"op":"state", ...}                     -> canonicalised state components as hex bits
//!  {"op":"quit"}

use crate::exec::*;
use crate::runner::out;
use oxmpl::base::space::*;
use oxmpl::base::state::*;
use serde_json::{json, Value};
use std::io::BufRead;

fn hx(x: f64) -> String {
    format!("{:016x}", x.to_bits())
}
fn xf(v: &Value) -> f64 {
    match v {
        Value::String(s) => match s.as_str() {
            "inf" => f64::INFINITY,
            "-inf" => f64::NEG_INFINITY,
            _ => f64::NAN,
        },
        other => other.as_f64().unwrap_or(f64::NAN),
    }
}
fn pair(v: &Value) -> (f64, f64) {
    (xf(&v[0]), xf(&v[1]))
}
fn pairs(v: &Value) -> Option<Vec<(f64, f64)>> {
    v.as_array().map(|a| a.iter().map(pair).collect())
}

fn handle_plan(req: &Value) -> Value {
    let case: PlanCase = match serde_json::from_value(req["case"].clone()) {
        Ok(c) => c,
        Err(e) => return json!({"error": format!("bad case: {e}")}),
    };
    match run_case_dyn(&case) {
        Err(e) => json!({"error": e}),
        Ok(t) => {
            let steps: Vec<Value> = t
                .steps
                .iter()
                .map(|s| match &s.res {
                    Res::Path(p) => json!({
                        "tag": "Ok",
                        "path": p.iter().map(|st| st.iter().map(|x| hx(*x)).collect::<Vec<_>>()).collect::<Vec<_>>(),
                    }),
                    Res::Panic { msg, loc } => json!({"tag": "Panic", "msg": msg, "loc": loc}),
                    other => json!({"tag": other.tag()}),
                })
                .collect();
            json!({"steps": steps, "validity_queries": t.rec.vlog.len()})
        }
    }
}

fn handle_ctor(req: &Value) -> Value {
    let which = req["ctor"].as_str().unwrap_or("");
    let r = crate::exec::guarded(|| match which {
        "RV" => {
            let dim = req["dim"].as_u64().unwrap_or(0) as usize;
            let b = if req["bounds"].is_null() { None } else { pairs(&req["bounds"]) };
            match RealVectorStateSpace::new(dim, b) {
                Err(e) => json!({"ok": false, "err": e.to_string()}),
                Ok(sp) => {
                    let a: Vec<f64> = req["a"].as_array().map(|v| v.iter().map(xf).collect()).unwrap_or_default();
                    let bb: Vec<f64> = req["b"].as_array().map(|v| v.iter().map(xf).collect()).unwrap_or_default();
                    let d = if a.len() == dim && bb.len() == dim {
                        Some(hx(sp.distance(&RealVectorState::new(a), &RealVectorState::new(bb))))
                    } else {
                        None
                    };
                    json!({"ok": true, "extent": hx(sp.get_maximum_extent()), "distance": d})
                }
            }
        }
        "SO2" => {
            let b = if req["bounds"].is_null() { None } else { Some(pair(&req["bounds"])) };
            match SO2StateSpace::new(b) {
                Err(e) => json!({"ok": false, "err": e.to_string()}),
                Ok(sp) => {
                    let d = sp.distance(&SO2State::new(xf(&req["a"])), &SO2State::new(xf(&req["b"])));
                    json!({"ok": true, "extent": hx(sp.get_maximum_extent()), "distance": hx(d)})
                }
            }
        }
        "SO3" => {
            let b = if req["bounds"].is_null() {
                None
            } else {
                let c = &req["bounds"][0];
                Some((SO3State::new(xf(&c[0]), xf(&c[1]), xf(&c[2]), xf(&c[3])), xf(&req["bounds"][1])))
            };
            match SO3StateSpace::new(b) {
                Err(e) => json!({"ok": false, "err": e.to_string()}),
                Ok(sp) => {
                    let q = |v: &Value| SO3State::new(xf(&v[0]), xf(&v[1]), xf(&v[2]), xf(&v[3]));
                    let d = sp.distance(&q(&req["a"]), &q(&req["b"]));
                    json!({"ok": true, "extent": hx(sp.get_maximum_extent()), "distance": hx(d)})
                }
            }
        }
        "SE2" => {
            let b = if req["bounds"].is_null() { None } else { pairs(&req["bounds"]) };
            match SE2StateSpace::new(xf(&req["weight"]), b) {
                Err(e) => json!({"ok": false, "err": e.to_string()}),
                Ok(sp) => {
                    let s = |v: &Value| SE2State::new(xf(&v[0]), xf(&v[1]), xf(&v[2]));
                    let d = sp.distance(&s(&req["a"]), &s(&req["b"]));
                    json!({"ok": true, "distance": hx(d)})
                }
            }
        }
        "SE3" => {
            let b = if req["bounds"].is_null() { None } else { pairs(&req["bounds"]) };
            match SE3StateSpace::new(xf(&req["weight"]), b) {
                Err(e) => json!({"ok": false, "err": e.to_string()}),
                Ok(sp) => {
                    let s = |v: &Value| {
                        SE3State::new(xf(&v[0]), xf(&v[1]), xf(&v[2]), SO3State::new(xf(&v[3]), xf(&v[4]), xf(&v[5]), xf(&v[6])))
                    };
                    let d = sp.distance(&s(&req["a"]), &s(&req["b"]));
                    json!({"ok": true, "distance": hx(d)})
                }
            }
        }
        _ => json!({"error": "unknown ctor"}),
    });
    match r {
        Ok(v) => v,
        Err((msg, loc)) => json!({"panic": msg, "loc": loc}),
    }
}

fn handle_state(req: &Value) -> Value {
    match req["state"].as_str().unwrap_or("") {
        "SO2" => json!({"value": hx(SO2State::new(xf(&req["v"])).value)}),
        "SE2" => {
            let s = SE2State::new(xf(&req["x"]), xf(&req["y"]), xf(&req["yaw"]));
            json!({"x": hx(s.get_x()), "y": hx(s.get_y()), "yaw": hx(s.get_yaw())})
        }
        _ => json!({"error": "unknown state"}),
    }
}

fn interp_k<K: crate::flat::Kind>(cfg: &crate::flat::SpaceCfg, a: &[f64], b: &[f64]) -> Value {
    use oxmpl::base::space::StateSpace;
    let Ok(sp) = K::build(cfg) else { return json!({"error": "build"}) };
    let (sa, sb) = (K::dec(cfg, a), K::dec(cfg, b));
    let d = sp.distance(&sa, &sb);
    let lvs = sp.get_longest_valid_segment_length();
    let n = if d > 0.0 && lvs > 0.0 { ((d / (lvs / 64.0)).ceil() as usize).clamp(1, 4000) } else { 1 };
    let mut out_s = sa.clone();
    let mut pts = Vec::new();
    for i in 0..=n {
        sp.interpolate(&sa, &sb, i as f64 / n as f64, &mut out_s);
        pts.push(K::enc(&out_s));
    }
    json!({"lvs": lvs, "d": d, "points": pts})
}
fn handle_interp(req: &Value) -> Value {
    let Ok(cfg) = serde_json::from_value::<crate::flat::SpaceCfg>(req["space"].clone()) else {
        return json!({"error": "bad space"});
    };
    let a: Vec<f64> = req["a"].as_array().map(|v| v.iter().map(xf).collect()).unwrap_or_default();
    let b: Vec<f64> = req["b"].as_array().map(|v| v.iter().map(xf).collect()).unwrap_or_default();
    crate::with_kind!(cfg.kind, interp_k, &cfg, &a, &b)
}

pub fn serve() -> i32 {
    let stdin = std::io::stdin();
    for line in stdin.lock().lines() {
        let Ok(line) = line else { break };
        if line.trim().is_empty() {
            continue;
        }
        let req: Value = match serde_json::from_str(&line) {
            Ok(v) => v,
            Err(e) => {
                out(&json!({"error": format!("bad json: {e}")}).to_string());
                continue;
            }
        };
        let reply = match req["op"].as_str().unwrap_or("") {
            "plan" => handle_plan(&req),
            "ctor" => handle_ctor(&req),
            "state" => handle_state(&req),
            "interp" => handle_interp(&req),
            "quit" => break,
            _ => json!({"error": "unknown op"}),
        };
        out(&reply.to_string());
    }
    0
}
