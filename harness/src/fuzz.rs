//! Engine B entry point (libFuzzer): the bytes are read as little-endian u64 choices and fed
//! to the same generator (`Prop::gen`) and oracle (`Prop::check`) that Engine A uses.

use crate::choice::Ch;
use crate::exec::{IN_CASE, LAST_PANIC};
use crate::runner::*;
use std::sync::OnceLock;

static OPTS: OnceLock<Opts> = OnceLock::new();

/// libfuzzer-sys installs a panic hook that aborts on *every* panic, including those the
/// oracles catch on purpose (C11/C12 probe whether accepted spaces panic). Replace it: panics
/// inside a guarded region are recorded and unwound, anything else aborts (a harness bug).
fn install_hook() {
    std::panic::set_hook(Box::new(|info| {
        if IN_CASE.with(|c| c.get()) {
            let msg = if let Some(s) = info.payload().downcast_ref::<&str>() {
                s.to_string()
            } else if let Some(s) = info.payload().downcast_ref::<String>() {
                s.clone()
            } else {
                "<non-string panic>".to_string()
            };
            let loc = info
                .location()
                .map(|l| format!("{}:{}", l.file(), l.line()))
                .unwrap_or_default();
            LAST_PANIC.with(|p| *p.borrow_mut() = Some((msg, loc)));
        } else {
            eprintln!("{info}");
            std::process::abort();
        }
    }));
}

pub fn fuzz_one<P: Prop>(data: &[u8]) {
    let opts = OPTS.get_or_init(|| {
        install_hook();
        silence_stdout();
        Opts::from_env(Tier::Thorough)
    });
    let raw: Vec<u64> = data
        .chunks(8)
        .map(|c| {
            let mut b = [0u8; 8];
            b[..c.len()].copy_from_slice(c);
            u64::from_le_bytes(b)
        })
        .collect();
    let mut ch = Ch::new(&raw);
    let case = match crate::exec::guarded(|| P::gen(&mut ch, Tier::Thorough)) {
        Ok(c) => c,
        Err(_) => return,
    };
    let mut ctx = Ctx::default();
    if crate::exec::guarded(|| P::check(&case, &mut ctx)).is_err() {
        return;
    }
    for (sig, detail) in &ctx.problems {
        if opts.is_known(P::ID, sig).is_none() {
            let js = serde_json::to_string(&case).unwrap_or_default();
            let path = write_replay::<P>(opts, &js, sig, detail);
            let marker = opts.verif_dir.join("work").join(format!("fuzz-violation-{}.txt", P::ID));
            let _ = std::fs::write(&marker, format!("{path}\n{sig}\n{detail}\n"));
            eprintln!("VIOLATION property={} replay={}\n  signature: {}\n  detail: {}", P::ID, path, sig, detail);
            std::process::abort();
        }
    }
}
