use oxv::runner::*;

fn main() {
    let args: Vec<String> = std::env::args().collect();
    oxv::exec::install_panic_hook();
    silence_stdout();
    let code = match args.get(1).map(|s| s.as_str()) {
        Some("run") => {
            let id = args.get(2).cloned().unwrap_or_default();
            let tier = match args.iter().position(|a| a == "--tier").and_then(|i| args.get(i + 1)) {
                Some(t) if t == "thorough" => Tier::Thorough,
                _ => match std::env::var("VERIF_TIER").as_deref() {
                    Ok("thorough") => Tier::Thorough,
                    _ => Tier::Quick,
                },
            };
            let opts = Opts::from_env(tier);
            oxv::props::run_property(&id, &opts)
        }
        Some("replay") => {
            let path = args.get(2).cloned().unwrap_or_default();
            let opts = Opts::from_env(Tier::Quick);
            match std::fs::read_to_string(&path)
                .ok()
                .and_then(|s| serde_json::from_str::<serde_json::Value>(&s).ok())
            {
                Some(doc) => oxv::props::replay(&opts, &doc),
                None => {
                    out(&format!("cannot read {path}"));
                    2
                }
            }
        }
        Some("refserver") => oxv::refserver::serve(),
        _ => {
            out("usage: oxv run <ID> [--tier quick|thorough] | oxv replay <file>");
            2
        }
    };
    std::process::exit(code);
}
