//! Shared generators (functions of a choice sequence).

use crate::choice::Ch;
use crate::flat::*;
use std::f64::consts::PI;

pub fn ulp(x: f64) -> f64 {
    let a = x.abs();
    if a == 0.0 {
        return f64::MIN_POSITIVE;
    }
    f64::from_bits(a.to_bits() + 1) - a
}
pub fn next_up(x: f64) -> f64 {
    if x.is_nan() || x == f64::INFINITY {
        return x;
    }
    if x == 0.0 {
        return f64::from_bits(1);
    }
    if x > 0.0 {
        f64::from_bits(x.to_bits() + 1)
    } else {
        f64::from_bits(x.to_bits() - 1)
    }
}
pub fn next_down(x: f64) -> f64 {
    -next_up(-x)
}

/// Random unit quaternion (Marsaglia-free: normalised 4 gaussians via Box-Muller on choices).
pub fn gen_unit_quat(ch: &mut Ch) -> [f64; 4] {
    loop {
        let mut q = [0.0; 4];
        for i in 0..2 {
            let u1 = ch.unit().max(1e-300);
            let u2 = ch.unit();
            let r = (-2.0 * u1.ln()).sqrt();
            q[2 * i] = r * (2.0 * PI * u2).cos();
            q[2 * i + 1] = r * (2.0 * PI * u2).sin();
        }
        let n = quat_norm(&q);
        if n > 1e-6 {
            for x in q.iter_mut() {
                *x /= n;
            }
            return q;
        }
        // degenerate choices (all zero raw values): identity
        return [0.0, 0.0, 0.0, 1.0];
    }
}
/// Unit quaternion at rotation angle `ang` (SO3 distance) from `c`, random axis.
pub fn quat_at_angle(ch: &mut Ch, c: &[f64; 4], ang: f64) -> [f64; 4] {
    // random unit axis
    let z = ch.range(-1.0, 1.0);
    let phi = ch.range(-PI, PI);
    let s = (1.0 - z * z).max(0.0).sqrt();
    let ax = [s * phi.cos(), s * phi.sin(), z];
    let h = ang / 2.0;
    let d = [ax[0] * h.sin(), ax[1] * h.sin(), ax[2] * h.sin(), h.cos()];
    quat_mul(c, &d)
}
/// Hamilton product, components ordered (x, y, z, w).
pub fn quat_mul(a: &[f64; 4], b: &[f64; 4]) -> [f64; 4] {
    let (ax, ay, az, aw) = (a[0], a[1], a[2], a[3]);
    let (bx, by, bz, bw) = (b[0], b[1], b[2], b[3]);
    let q = [
        aw * bx + ax * bw + ay * bz - az * by,
        aw * by - ax * bz + ay * bw + az * bx,
        aw * bz + ax * by - ay * bx + az * bw,
        aw * bw - ax * bx - ay * by - az * bz,
    ];
    let n = quat_norm(&q);
    [q[0] / n, q[1] / n, q[2] / n, q[3] / n]
}

#[derive(Clone, Copy, Debug, PartialEq)]
pub enum BoundsMode {
    /// every component bounded (planners need to sample)
    Bounded,
    /// bounded, and every bounded region geodesically convex
    BoundedConvex,
    /// anything constructible, including unbounded
    Any,
}

pub fn gen_rv_comp(ch: &mut Ch, dim: usize, mode: BoundsMode) -> Comp {
    let unb = mode == BoundsMode::Any && ch.prob(0.2);
    if unb {
        return Comp::RV { dim, bounds: None };
    }
    let scale = ch.pick(&[1.0, 10.0, 0.1, 100.0, 1e-3, 1e4]);
    let mut b = Vec::new();
    // a quarter of the boxes share an end across their coordinates, as hand-written bounds
    // usually do ([0,1] x [0,4], [-5,5]^n, ...)
    let shared = ch.weighted(&[6.0, 1.0, 1.0]);
    let (slo, sw) = (ch.pick(&[0.0, -1.0, -0.5]) * scale, ch.range(0.2, 2.0) * scale);
    for _ in 0..dim {
        let lo = ch.range(-1.0, 0.5) * scale;
        let w = ch.range(0.2, 2.0) * scale;
        b.push(match shared {
            1 => (slo, slo + w),
            2 => (slo, slo + sw),
            _ => (lo, lo + w),
        });
    }
    Comp::RV {
        dim,
        bounds: Some(b),
    }
}
pub fn gen_so2_comp(ch: &mut Ch, mode: BoundsMode) -> Comp {
    match ch.weighted(&[3.0, 2.0, 2.0, 1.0, 0.6]) {
        4 => {
            // a requested interval that sticks out of [-pi, pi]: the constructor clamps it
            // (span <= pi after clamping, so the region stays convex)
            if ch.prob(0.5) {
                Comp::SO2 {
                    bounds: Some((-4.0, ch.range(-PI + 0.3, 0.0))),
                }
            } else {
                Comp::SO2 {
                    bounds: Some((ch.range(0.0, PI - 0.3), ch.pick(&[4.0, 5.0, 3.5]))),
                }
            }
        }
        0 => Comp::SO2 { bounds: None },
        1 => {
            // span <= pi
            let span = ch.range(0.3, PI);
            let lo = ch.range(-PI, PI - span);
            Comp::SO2 {
                bounds: Some((lo, lo + span)),
            }
        }
        2 => {
            if mode == BoundsMode::BoundedConvex {
                Comp::SO2 {
                    bounds: Some((-PI, PI)),
                }
            } else {
                // span > pi, seam excluded
                let span = ch.range(PI + 0.05, 2.0 * PI - 0.05);
                let lo = ch.range(-PI, PI - span);
                Comp::SO2 {
                    bounds: Some((lo, lo + span)),
                }
            }
        }
        _ => {
            // touching the seam on one side
            let span = ch.range(0.3, PI);
            if ch.prob(0.5) {
                Comp::SO2 {
                    bounds: Some((-PI, -PI + span)),
                }
            } else {
                Comp::SO2 {
                    bounds: Some((PI - span, PI)),
                }
            }
        }
    }
}
pub fn gen_so3_comp(ch: &mut Ch, mode: BoundsMode) -> Comp {
    match ch.weighted(&[3.0, 2.0, 2.0]) {
        0 => Comp::SO3 { bounds: None },
        1 => {
            let c = if ch.prob(0.3) {
                [0.0, 0.0, 0.0, 1.0]
            } else {
                gen_unit_quat(ch)
            };
            Comp::SO3 {
                bounds: Some((c, ch.range(0.3, PI / 2.0))),
            }
        }
        _ => {
            let c = gen_unit_quat(ch);
            if mode == BoundsMode::BoundedConvex {
                Comp::SO3 {
                    bounds: Some((c, ch.range(0.3, PI / 2.0))),
                }
            } else {
                Comp::SO3 {
                    bounds: Some((c, ch.range(PI / 2.0 + 0.05, PI - 0.05))),
                }
            }
        }
    }
}

pub fn gen_frac(ch: &mut Ch) -> Option<f64> {
    match ch.weighted(&[3.0, 2.0, 1.0, 1.0]) {
        0 => None,
        1 => Some(ch.log_range(0.01, 0.3)),
        2 => Some(ch.log_range(0.1, 1.0)),
        _ => Some(ch.pick(&[0.01, 0.02, 0.2, 0.5, 1.0])),
    }
}

pub fn gen_weight(ch: &mut Ch) -> f64 {
    match ch.weighted(&[3.0, 3.0, 1.0, 1.0]) {
        0 => 1.0,
        1 => ch.log_range(0.1, 10.0),
        2 => ch.log_range(1e-3, 1e-1),
        _ => ch.log_range(10.0, 1e3),
    }
}

/// A space configuration of the given kind. `fracs`: whether to vary the resolution fractions.
pub fn gen_space(ch: &mut Ch, kind: KindTag, mode: BoundsMode, fracs: bool) -> SpaceCfg {
    let f = |ch: &mut Ch| if fracs { gen_frac(ch) } else { None };
    match kind {
        KindTag::RV => {
            // dimensions 1-9 ("for all dimensions"): small ones most of the time
            let dim = 1 + ch.weighted(&[2.0, 4.0, 2.0, 1.0, 0.5, 0.5, 0.4, 0.3, 0.3]);
            let c = gen_rv_comp(ch, dim, mode);
            let fr = f(ch);
            SpaceCfg::single(kind, c, fr)
        }
        KindTag::SO2 => {
            let c = gen_so2_comp(ch, mode);
            let fr = f(ch);
            SpaceCfg::single(kind, c, fr)
        }
        KindTag::SO3 => {
            let c = gen_so3_comp(ch, mode);
            let fr = f(ch);
            SpaceCfg::single(kind, c, fr)
        }
        KindTag::CS => {
            let n = 1 + ch.weighted(&[1.0, 4.0, 2.0, 1.0]);
            let mut comps = Vec::new();
            let mut weights = Vec::new();
            let mut fr = Vec::new();
            for _ in 0..n {
                let c = match ch.below(3) {
                    0 => {
                        let d = 1 + ch.weighted(&[3.0, 3.0, 3.0, 0.5, 0.5, 0.3, 0.3]);
                        gen_rv_comp(ch, d, mode)
                    }
                    1 => gen_so2_comp(ch, mode),
                    _ => gen_so3_comp(ch, mode),
                };
                comps.push(c);
                weights.push(gen_weight(ch));
                fr.push(f(ch));
            }
            // one compound in ten has all its weights small (or all large): what matters for a
            // resolution is then the weighted, not the raw, size of the components
            match ch.weighted(&[8.0, 1.0, 0.5]) {
                1 => weights.iter_mut().for_each(|w| *w = ch.log_range(1e-3, 0.1)),
                2 => weights.iter_mut().for_each(|w| *w = ch.log_range(10.0, 1e3)),
                _ => {}
            }
            SpaceCfg {
                kind,
                comps,
                weights,
                fracs: fr,
            }
        }
        KindTag::SE2 => {
            let rv = gen_rv_comp(ch, 2, mode);
            let so2 = if matches!(rv, Comp::RV { bounds: None, .. }) {
                Comp::SO2 { bounds: None }
            } else {
                gen_so2_comp(ch, mode)
            };
            let w = gen_weight(ch);
            let fr = vec![f(ch), f(ch)];
            SpaceCfg {
                kind,
                comps: vec![rv, so2],
                weights: vec![1.0, w],
                fracs: fr,
            }
        }
        KindTag::SE3 => {
            let rv = gen_rv_comp(ch, 3, mode);
            // the public constructor only offers an unbounded rotation part; bounded cones are
            // reachable through the public tuple field and are exercised with lower weight
            let so3 = if ch.prob(0.25) {
                gen_so3_comp(ch, mode)
            } else {
                Comp::SO3 { bounds: None }
            };
            let w = gen_weight(ch);
            let fr = vec![f(ch), f(ch)];
            SpaceCfg {
                kind,
                comps: vec![rv, so3],
                weights: vec![1.0, w],
                fracs: fr,
            }
        }
    }
}

/// A state inside the component's bounds (by the reference membership), canonical.
pub fn gen_comp_state_in(ch: &mut Ch, c: &Comp) -> Vec<f64> {
    match c {
        Comp::RV { dim, bounds } => match bounds {
            Some(b) => b
                .iter()
                .map(|(lo, hi)| {
                    let m = (hi - lo) * 1e-6;
                    ch.range(lo + m, hi - m)
                })
                .collect(),
            None => (0..*dim).map(|_| ch.range(-10.0, 10.0)).collect(),
        },
        Comp::SO2 { bounds } => {
            let (lo, hi) = bounds.unwrap_or((-PI, PI));
            let (lo, hi) = (lo.max(-PI), hi.min(PI));
            let m = (hi - lo) * 1e-6;
            vec![ch.range(lo + m, hi - m)]
        }
        Comp::SO3 { bounds } => match bounds {
            None => gen_unit_quat(ch).to_vec(),
            Some((c, a)) => {
                let a = a.min(PI);
                // not uniform; any in-cone rotation will do
                let ang = a * 0.999 * ch.unit().sqrt();
                quat_at_angle(ch, c, ang).to_vec()
            }
        },
    }
}
pub fn gen_state_in(ch: &mut Ch, cfg: &SpaceCfg) -> Vec<f64> {
    let mut v = Vec::new();
    for c in &cfg.comps {
        v.extend(gen_comp_state_in(ch, c));
    }
    v
}

/// Approximate extent of the space in its own metric (for scaling steps and radii).
pub fn approx_extent(cfg: &SpaceCfg) -> f64 {
    let mut s = 0.0;
    for (c, w) in cfg.comps.iter().zip(&cfg.weights) {
        let e = match c {
            Comp::RV { bounds, .. } => match bounds {
                Some(b) => b.iter().map(|(lo, hi)| (hi - lo).powi(2)).sum::<f64>().sqrt(),
                None => 20.0,
            },
            Comp::SO2 { bounds } => {
                let (lo, hi) = bounds.unwrap_or((-PI, PI));
                ((hi.min(PI) - lo.max(-PI)) / 1.0).min(PI)
            }
            Comp::SO3 { bounds } => match bounds {
                None => PI,
                Some((_, a)) => (2.0 * a).min(PI),
            },
        };
        s += (e * w) * (e * w);
    }
    s.sqrt()
}

/// Reference interpolation on flat vectors (per component), used to place obstacles and goals.
pub fn ref_interpolate(cfg: &SpaceCfg, a: &[f64], b: &[f64], t: f64) -> Vec<f64> {
    let mut out = Vec::with_capacity(a.len());
    let mut o = 0;
    for c in &cfg.comps {
        let n = c.width();
        let (x, y) = (&a[o..o + n], &b[o..o + n]);
        match c {
            Comp::RV { .. } => {
                for i in 0..n {
                    out.push(x[i] + (y[i] - x[i]) * t);
                }
            }
            Comp::SO2 { .. } => {
                let d = wrap_pi(y[0] - x[0]);
                out.push(wrap_pi(x[0] + d * t));
            }
            Comp::SO3 { .. } => {
                out.extend(ref_slerp(x, y, t));
            }
        }
        o += n;
    }
    out
}
/// atan2-based slerp, valid for every angle.
pub fn ref_slerp(a: &[f64], b: &[f64], t: f64) -> Vec<f64> {
    let dot: f64 = (0..4).map(|i| a[i] * b[i]).sum();
    let s = if dot < 0.0 { -1.0 } else { 1.0 };
    let bb: Vec<f64> = b.iter().map(|x| x * s).collect();
    let mut nm = 0.0;
    let mut np = 0.0;
    for i in 0..4 {
        nm += (a[i] - bb[i]).powi(2);
        np += (a[i] + bb[i]).powi(2);
    }
    let theta = 2.0 * nm.sqrt().atan2(np.sqrt()); // angle between the 4-vectors
    let mut q = [0.0; 4];
    if theta < 1e-8 {
        for i in 0..4 {
            q[i] = a[i] + (bb[i] - a[i]) * t;
        }
    } else {
        let st = theta.sin();
        let s0 = ((1.0 - t) * theta).sin() / st;
        let s1 = (t * theta).sin() / st;
        for i in 0..4 {
            q[i] = a[i] * s0 + bb[i] * s1;
        }
    }
    let n = quat_norm(&q);
    q.iter().map(|x| x / n).collect()
}
